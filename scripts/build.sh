#!/bin/bash
# Rebuilds the harness against /repo's current working tree with hooks on.
# Exit 2 on build trouble (never a VIOLATION).
set -u
. "$(dirname "$0")/env.sh"
cd "$VERIF_DIR/sim" || exit 2
cp "$VERIF_REPO/go.sum" go.sum 2>/dev/null
if [ "$VERIF_REPO" != "/repo" ]; then
  sed -i "s#^replace github.com/gittuf/gittuf => .*#replace github.com/gittuf/gittuf => $VERIF_REPO#" go.mod
fi
mkdir -p "$VERIF_DIR/bin"
out=$(go build -tags verif -o "$VERIF_DIR/bin/verifsim.tmp.$$" ./cmd/verifsim 2>&1)
rc=$?
if [ $rc -ne 0 ]; then
  echo "harness: build failed" >&2
  echo "$out" >&2
  rm -f "$VERIF_DIR/bin/verifsim.tmp.$$"
  exit 2
fi
mv "$VERIF_DIR/bin/verifsim.tmp.$$" "$VERIF_DIR/bin/verifsim"
exit 0
