#!/bin/bash
# usage: mutant_check.sh <gittuf tree> <property> [budget seconds] [extra verifsim args]
# Builds the harness against another gittuf tree (a scratch worktree with a
# seeded change) in a scratch directory outside /verif and /repo, runs the
# property's check there and removes the scratch directory. Exit status is the
# check's (1 = the change was detected).
set -u
tree="$1"; prop="$2"; budget="${3:-60}"; shift 3 2>/dev/null
. "$(dirname "$0")/env.sh"
scratch=$(mktemp -d /dev/shm/verif-mutant-XXXXXX)
trap 'rm -rf "$scratch"' EXIT
cp -r /verif/sim "$scratch/sim"
cp /verif/known_findings.json "$scratch/"
cp -r /verif/findings "$scratch/findings"
cd "$scratch/sim" || exit 2
sed -i "s#^replace github.com/gittuf/gittuf => .*#replace github.com/gittuf/gittuf => $tree#" go.mod
cp "$tree/go.sum" go.sum
if ! go build -tags verif -o "$scratch/verifsim" ./cmd/verifsim 2> "$scratch/build.log"; then
  echo "harness: build against $tree failed"; tail -20 "$scratch/build.log"; exit 2
fi
cd "$scratch" || exit 2
VERIF_DIR="$scratch" "$scratch/verifsim" check "$prop" --budget "$budget" "$@" 2>&1 | grep -v "^KNOWN-FINDING" | cut -c1-600
rc=${PIPESTATUS[0]}
if [ "${KEEP_REPLAYS:-}" != "" ] && [ -d "$scratch/replays" ]; then mkdir -p "$KEEP_REPLAYS"; cp "$scratch"/replays/* "$KEEP_REPLAYS"/ 2>/dev/null; fi
exit $rc
