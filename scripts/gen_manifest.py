#!/usr/bin/env python3
"""Regenerates MANIFEST.json from the table below (single source of truth)."""
import json, subprocess

claimed = {
 # id: (category, technique, level text, level note, design ref)
 "C16": ("fault_enumeration",
         "deterministic simulation: complete single-fault sweep (io-error, crash) of each operation's storage-call trace over seeded starting states on SimStore; on real git the k-th git subprocess of the operation fails or the process dies right after it (fault position swept by case number)",
         "Every storage call of every mutating operation (record, annotate, propagation entry, State.Commit, Apply, Attestations.Commit, ReconcileStaging) is failed and crashed in turn from seeded starting states (empty, first-ever, established, staging ahead, policy ahead, diverged, attestations present); log validity is judged by an independent walker, managed-ref consistency and retry-equivalence by comparing with the uninterrupted run, crash verdicts by a cache-less observer on a fork. Complete within each sampled (state, operation); which states are sampled is seeded search.",
         "SimStore stands in for Git storage (Commit split into read/object/compare-and-set as in gitinterface/commit.go); a real-git slice (3 of 16 workers) fails or crashes after the k-th git subprocess of the same operations on a real repository, so gitinterface's own compare-and-set, ResetDueToError and DeleteReference are under test; single-fault model; power-loss of un-fsynced objects is not modelled.",
         "DESIGN.md §6 C16"),
 "C17": ("exploration",
         "deterministic simulation: seeded scheduler over goroutines parked at every reference operation; independent walker + porcupine linearizability check; real-git slice with one pre-emption at the git-subprocess hook (position swept)",
         "2-3 concurrent recording operations (record, annotate, policy stage, policy apply) plus tip readers run against one repository under seeded interleavings (uniform, PCT-style, single pre-emption) of their reference operations; each operation must fail without trace or succeed with exactly one entry, the final log must be a consecutive single-parent chain every reader walks, and the append/read history must be linearizable against a sequential log (porcupine). Sampled schedules, counted as distinct canonical reference-operation orders.",
         "SimStore's Commit mirrors gitinterface's read-tip/commit-tree/compare-and-set; OS-process races are modelled by goroutines with separate RSL caches, one runnable at a time. A real-git slice (4 of 16 workers) runs two gitinterface handles on one real repository and pre-empts writer A before its k-th git subprocess (k swept 0-15, log empty / 1 / 2 entries) to run writer B, so the real compare-and-set is under test too.",
         "DESIGN.md §6 C17"),
 "C03": ("exploration",
         "deterministic simulation: seeded operation sequences with injected storage errors, restarts and repeats; independent chain walker after every step",
         "Seeded sequences of every recording operation (incl. legacy unnumbered entries and the transition to numbering, invalid annotation targets, invalidly signed staged policy) with single-call io-errors inside a subset of operations; after every operation an independent walker checks single parent, number = parent+1, earlier tips still ancestors, exactly the reported entries on success, none on failure.",
         "SimStore; one recorder at a time (concurrency is C17).",
         "DESIGN.md §6 C03"),
 "C04": ("exploration",
         "deterministic simulation: growing and tampered logs queried by a restarting reader process; oracle = newest-to-oldest scan over the model slice",
         "Harness-written logs (all entry kinds, multi-target annotations, gittuf namespaces, legacy prefix) are queried through every exported reader with seeded option combinations and bounds while the log grows (warm cache from shorter logs) and after one single-point corruption (extra parent, number gap/duplicate, garbage commit); results must equal a plain scan, and any answer whose scan crosses the corruption must be an error.",
         "Option semantics as documented in pkg/rsl/options.go; documented-open combinations are counted as unspecified, not compared.",
         "DESIGN.md §6 C04"),
 "C01": ("exploration",
         "deterministic simulation: seeded multi-actor histories (order of pushes vs policy changes vs approvals vs revocations decided by the seed) judged by a reference model fed ground truth",
         "Generated policies (thresholds 1-3, up to two delegation levels, protected/unprotected refs) and histories in which authorised, de-authorised, never-authorised, unknown-key and unsigned actors push, approve, revoke, edit policy and record propagation entries in seeded order; every verification (full, latest-only, from-entry; mid-history and at the end) is compared with the model's three-valued expectation (must accept with the right tip / must reject / unspecified).",
         "SimStore; in-process envelope signer verified by gittuf's real verifier; the model is my reading of the statement (Appendix A); principals share no keys; tags and file rules are not generated here.",
         "DESIGN.md §6 C01"),
 "C07": ("exploration",
         "deterministic simulation: flag-pattern histories (valid/violating x revoked/not x tree) with seeded annotation placement and interleaved policy switches; bounded sweep of all patterns up to length 4 in the thorough tier",
         "Every entry of a protected reference is independently valid or violating, revoked or not (annotations right after, anywhere later, multi-target, by any actor) and carries one of three trees; other-ref pushes, policy switches and attestation entries are interleaved. The recovery rule as worded is evaluated over ground truth: any history whose violation is not revoked and repaired as required must be rejected.",
         "Only the only-if direction is a verdict; first-entry violations and unauthorised fix entries are unspecified here.",
         "DESIGN.md §6 C07"),
 "C11": ("exploration",
         "deterministic simulation: the identical seeded operation list re-executed under P and under P plus/minus global rules (exact replay makes the two runs comparable); reference model for the direct rule; controller-declared rules on a two-repository real-git engine",
         "C01-style histories whose policies declare, change and remove global threshold and block-force-push rules (matching the verified reference, another one, or everything), with force pushes. Every verification is compared (i) with the model under P+G and (ii) with the same verification in a second execution of the same operations with all global rules stripped: accepting under P+G but not under P is a violation.",
         "SimStore for the repository's own global rules; global rules declared by a controller run in a real-git network slice (controller + network repository, gittuf's own propagation; 3 of 16 workers, rule combinations swept).",
         "DESIGN.md §6 C11"),
 "C08": ("exploration",
         "deterministic simulation: cache-holding actor with stale-cache faults and restarts vs a cache-less fresh twin on a fork of the same store",
         "One actor populates, loses (stale-cache fault), deletes and advances a persistent cache while others grow the log (including key revocations and approvals); each of its verifications (all modes, repeated, other refs first, from its own checkpoints) must equal the verdict class and tip of a fresh cache-less process on a fork of the same store, and may change no reference but the cache reference.",
         "Equality only (correctness of verdicts is C01); SimStore namespaces refs/local/* per simulated process.",
         "DESIGN.md §6 C08"),
 "C02": ("exploration",
         "deterministic simulation: honest and adversarial (forged, replayed, rolled-back, partially signed) policy successors written in seeded order around reference entries; chain conditions evaluated on ground-truth policy specs",
         "Sequences of 2-6 policy states produced by the honest root quorum (stage+apply: root rotation, thresholds, versions, rules, delegated files) or by an adversary writing straight onto refs/gittuf/policy (forged rule file under the old root envelope, root signed by too few/only new keys, version rollback, wholesale replay, vanished or unreachable rule file, wrongly signed delegated file), with pushes placed before/between/after. Every verification mode and LoadCurrentState must fail when a state it depends on breaks a chain condition and must succeed on valid chains with authorised entries.",
         "SimStore; successor roots not self-signed by their own role are unspecified; controller metadata not generated.",
         "DESIGN.md §6 C02"),
 "C09": ("exploration",
         "deterministic simulation: seeded races between approvers, code-review bot, adversarial attestation writes and the recorder; reference model counting each principal once from ground truth",
         "Changes on a branch whose rule needs 2-3 of 4 persons: authorizations by trusted/untrusted keys, code-review approvals signed by the app key or another key naming approvers and dismissed approvers, app trust toggled by policy edits, approvals recorded before or after the entry and for exact or stale changes, plus misfiled and signature-lifted attestations of both kinds written straight into the attestations tree. Verdicts are compared with the model (each principal once across entry signature, authorization, code-review identity; only the preceding attestation state; only statements bound to exactly that change).",
         "SimStore; GitHub API replaced by injected attestations; acceptance is demanded only when no attestation was planted by a non-client.",
         "DESIGN.md §6 C09"),
 "C19": ("exploration",
         "deterministic simulation: prediction by the real VerifyMergeable, then exact re-execution of the same history once per candidate recorder (a fork of the same state) and full verification of the recorded merge; real-git slice (copied repositories as forks) for the real merge-tree computation",
         "Seeded branch rules (threshold 1-3, optional global threshold), feature histories ahead of or diverged from the branch, and prior approvals (authorizations and code-review approvals, possibly stale) for the predicted merge; for six candidate recorders (three trusted persons incl. ones already counted, an untrusted person, an outsider key, unsigned) the fast-forward or the pre-built merge commit is recorded and verified, and the outcome is compared with the three-way contract of the prediction.",
         "SimStore's GetMergeTree is a per-path three-way merge stub; a file rule on the feature path is drawn in 30 % of the cases (fast-forward merges compared; a recorded merge commit is itself subject to the rule and not compared).",
         "DESIGN.md §6 C19"),
 "C12": ("exploration",
         "deterministic simulation: seeded sequences of stage/apply/discard by signers inside and outside the roles with crash leftovers and ref/log tampering written into the store; ref/log state machine plus writer-verifier link; real-git slice sweeping the root-of-trust API with non-root signers",
         "Valid successors (root rotation over several staged steps, thresholds, versions, rules) and successors produced by non-root / non-rule-file keys are staged, applied and discarded in seeded order, with policy/staging refs moved without entries, entries without refs, and non-descendant staging as starting states. A successful Apply must have moved policy to the staged tip (a descendant), appended its entry, and published a state that a fresh LoadCurrentState and full verification accept; Apply must refuse on any ref/entry disagreement and must not move the policy ref when it fails; Discard must restore staging.",
         "SimStore for Apply/Discard/ReconcileStaging; the API clause (root-of-trust changes refused for non-root signers) and Apply of a non-descendant through the real KnowsCommit run in a real-git slice (workers 0-3, every 100th case: 10-14 of 29 root mutators of experimental/gittuf per case, signer kinds and staged-but-unrecorded scenarios swept). SignRoot is not among the calls that must be refused.",
         "DESIGN.md §6 C12"),
 "C18": ("exploration",
         "deterministic simulation on real git: upstream and downstream repositories on tmpfs evolving in seeded step order, repeated propagation, ground truth by NUL-delimited plumbing",
         "Seeded upstream/downstream trees (nested, odd and prefix-related names), directives with and without upstream path and trailing slash (grid walked by run index), upstream recording new states and revoking its latest entry between repeated propagations, unrelated downstream commits; after every call the downstream tree and log are read with ls-tree -z / git log and compared with the model (exact subtree, bystanders byte-identical, propagation entry naming upstream location and entry, no commit or entry when content already matches).",
         "Real internal/propagation, gitinterface and git 2.39; local repositories only; one case in eight is the controller scenario (directive synthesised by experimental/gittuf PropagateChangesFromUpstreamRepositories, upstream cloned); this machine spawns ~100 git processes per second in total, so runs are few and stratified.",
         "DESIGN.md §6 C18"),
 "C10": ("exploration",
         "deterministic simulation: (real git) harness-written commit graphs over an odd path alphabet with seeded signer patterns, verified through the real gitinterface parsers and verifier; (SimStore) seeded multi-commit pushes, approvals and rule changes judged by a file-rule reference model",
         "Policies with a literal and a directory-prefix file rule; commit graphs (linear, merged side branch, merged unrelated root) over names with space, tab, quote, backslash, control, multi-byte and glob characters, signed by the authorised developer, another developer or nobody; (i) GetFilePathsChangedByCommit / GetAllFilesInTree must return exactly the names written, (ii) full verification must reject an unauthorised non-merge change to a protected path and accept fully authorised histories.",
         "6 of 16 workers: real gitinterface and git 2.39, history written by harness plumbing with in-process signatures, literal rule over 8 odd names through escaped patterns (few, stratified runs). 10 of 16 workers: SimStore slice for the verdict side of file rules (thresholds 1-2, approvals, delegated file namespace, rules changing between pushes, several commits per push) against a file-rule reference model; merges next to protected paths are unspecified.",
         "DESIGN.md §6 C10"),
 "C15": ("exploration",
         "deterministic simulation on real git: a bare forge and two clones racing to it, harness-written diverged suffixes, torn-push and lost-ack faults through the exec hook, independent walker on both sides",
         "Clone A wins the race to the forge; clone B holds a local-only suffix (reference entries on disjoint or overlapping refs, skip annotations on shared or its own local-only entries, propagation entries) with local refs behind/equal/ahead/diverged, then runs ReconcileLocalRSLWithRemote and Sync (overwrite flag, torn multi-ref push, lost acknowledgement). The local log must extend the remote tip and contain each local-only entry once, in order, with the same meaning (annotations remapped and still skipping); conflicts must be refused without change; Sync may only fast-forward local refs to recorded states and publish entries together with the refs they name.",
         "Real experimental/gittuf, gitinterface and git 2.39 over local-path remotes; suffixes written by harness plumbing; few runs (process spawning is the bottleneck).",
         "DESIGN.md §6 C15"),
}

not_applicable = {
 "C05": "pure function of (rule, signature set): no schedule, clock, fault or stored state enters SignatureVerifier.Verify; simulation would be input generation in simulator vocabulary",
 "C06": "pure function of (policy graph, path) including termination on cycles; nothing for a scheduler or fault injector to vary",
 "C13": "invariants of in-memory metadata objects and their JSON under edits/migration; no storage, actors, order or faults",
 "C14": "pure text<->struct codec quantified over all byte strings: fuzzing/property-testing territory, not simulation",
 "C20": "confinement is static reachability over the Lua value graph; the timeout is a real wall-clock timer pre-empting a CPU-bound VM that a simulated clock cannot advance past",
}

def main():
    hooks = subprocess.run(["git","-C","/repo","log","--format=%h %s","--grep=^verif hook"],capture_output=True,text=True).stdout.strip().splitlines()
    checks = []
    for pid,(cat,tech,text,note,ref) in sorted(claimed.items()):
        checks.append({
            "property_id": pid,
            "quick_cmd": f"scripts/check.sh {pid} quick",
            "thorough_cmd": f"scripts/check.sh {pid} thorough",
            "evidence_file": f"/verif/evidence/{pid}.json",
            "replay_cmd_template": "bin/verifsim replay {path}",
            "engine": "verifsim",
            "level_claimed": {"category": cat, "text": text, "design_ref": ref},
            "level_note": note,
            "technique": tech,
        })
    na = [{"property_id": k, "reason": v} for k,v in sorted(not_applicable.items())]
    all_ids = [f"C{i:02d}" for i in range(1,21)]
    for pid in all_ids:
        if pid not in claimed and pid not in not_applicable:
            na.append({"property_id": pid, "reason": "check not built yet in this session (planned in DESIGN.md §6); not claimed until its check exists and is silent on the unchanged tree"})
    na.sort(key=lambda x:x["property_id"])
    m = {
      "version": 1,
      "setup_cmd": "scripts/setup.sh",
      "hooks": {
        "guard": "verif (Go build tag)",
        "enable": "go build -tags verif (scripts/build.sh builds /verif/sim with replace github.com/gittuf/gittuf => /repo)",
        "baseline_off_cmd": "scripts/baseline_off.sh",
        "source_commits": [h.split()[0] for h in hooks],
        "add_only": True,
      },
      "engines": [{"name":"verifsim","path":"/verif/sim","serves_properties":sorted(claimed.keys()),
                   "kind_free_text":"seeded deterministic simulator: SimStore (in-memory gitstore.Storer with real Git object ids), interception layer with fault injection and a one-runnable-goroutine scheduler, real rsl/policy/attestations/cache code, reference model and independent walker as oracles"}],
      "checks": checks,
      "not_applicable": na,
      "notes": "Exit 1 + VIOLATION only for oracle mismatches; build/watchdog/harness trouble exits 2. known_findings.json lists open findings (narrow predicates + committed replays under findings/) and fixed ones (regression replays).",
    }
    json.dump(m, open("/verif/MANIFEST.json","w"), indent=1)
    print("wrote MANIFEST.json with", len(checks), "checks")

main()
