#!/usr/bin/env python3
"""refresh_finding.py <findings/file.json> — after a harness change that alters digests/details (not the failing
behaviour), re-executes the committed case and rewrites digest/detail/features from the violation of the same class.
Refuses if the class no longer occurs."""
import json, subprocess, sys
p = sys.argv[1]
r = json.load(open(p))
import os
out = subprocess.run([os.environ.get("VERIFSIM", "/verif/bin/verifsim"), "exec", p], capture_output=True, text=True).stdout
res = json.loads(out)
vs = [v for v in res.get("violations", []) if v["class"] == r["class"]]
if not vs:
    print("class no longer occurs:", r["class"]); sys.exit(1)
r["digest"] = res["digest"]; r["detail"] = vs[0]["detail"]; r["features"] = vs[0].get("features", [])
json.dump(r, open(p, "w"), indent=1)
print("refreshed", p, r["digest"])
