#!/bin/bash
# usage: run_some.sh <tier> <id>... — like run_all.sh for the listed checks
cd "$(dirname "$0")/.." || exit 2
tier="$1"; shift
rc=0
for p in "$@"; do
  out=$(scripts/check.sh "$p" "$tier" 2>&1); r=$?
  echo "$out" | grep -E "^(VIOLATION|  class=|$p $tier|harness|warning)" | cut -c1-400
  echo "== $p exit $r"
  [ $r -ne 0 ] && rc=1
done
exit $rc
