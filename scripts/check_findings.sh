#!/bin/bash
# Every open finding's committed replay must still reproduce (REPRODUCED) and
# every fixed finding's replay must not. Run after any harness change.
cd "$(dirname "$0")/.." || exit 2
rc=0
python3 - <<'PY' > /tmp/.findings.$$
import json
for f in json.load(open('known_findings.json'))['findings']:
    print(f['id'], f['status'], f['replay'])
PY
while read -r id status replay; do
  out=$(timeout 900 bin/verifsim replay "$replay" 2>&1 | head -1)
  case "$status:$out" in
    open:REPRODUCED*) ;;
    fixed:NOT-REPRODUCED*) ;;
    *) echo "MISMATCH $id ($status): $out"; rc=1;;
  esac
done < /tmp/.findings.$$
rm -f /tmp/.findings.$$
[ $rc -eq 0 ] && echo "all finding replays behave as recorded"
exit $rc
