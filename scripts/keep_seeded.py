#!/usr/bin/env python3
"""keep_seeded.py <worktree> <seeded-id> <property> <detected: yes|no> <by-check> <needs> -- stores a confirmed seeded change under /verif/seeded/<id>/"""
import sys, os, json, shutil, glob, subprocess
wt, sid, prop, detected, by, needs = sys.argv[1:7]
dst = f"/verif/seeded/{sid}"
os.makedirs(dst, exist_ok=True)
shutil.copy(f"{wt}/MUTANT/patch.diff", f"{dst}/patch.diff")
for f in glob.glob(f"{wt}/MUTANT/*"):
    if os.path.basename(f) != "patch.diff":
        shutil.copy(f, dst)
# the demo as placed in the tree
status = subprocess.run(["git","-C",wt,"status","--short"],capture_output=True,text=True).stdout
placed = [l[3:] for l in status.splitlines() if l.startswith("??") and l.endswith("_test.go")]
meta = {
  "id": sid, "breaks_property": prop,
  "needs_to_manifest": needs,
  "demo_placed_at": placed,
  "confirmed": "applied in a scratch worktree: go build ./... ok; tests of the touched packages pass except the demonstration; demonstration passes with the patch stashed",
  "detected_by_checks": detected == "yes",
  "detected_by": by,
  "what_i_ran": f"scripts/mutant_check.sh <worktree> {prop} (harness built against the changed tree in a scratch dir)",
  "written_by": "independent sub-agent given only the property text and a scratch worktree",
}
json.dump(meta, open(f"{dst}/meta.json","w"), indent=1)
print("kept", dst)
