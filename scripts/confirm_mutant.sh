#!/bin/bash
# usage: confirm_mutant.sh <worktree> <package dir> <demo test regexp> [related tests regexp]
# Confirms independently: builds; the demonstration fails with the change and
# passes without it; related existing tests pass with the change.
wt="$1"; pkg="$2"; demo="$3"; related="${4:-}"
. "$(dirname "$0")/env.sh"
cd "$wt" || exit 2
go build ./... || { echo "BUILD FAILED"; exit 1; }
echo "== demo with change (expect FAIL)"
go test -count=1 -run "$demo" "./$pkg/" 2>&1 | grep -E "^(--- FAIL|FAIL|ok|panic)" | head -5
git diff -- . ':(exclude)MUTANT' > /tmp/confirm-$$.diff
git apply -R /tmp/confirm-$$.diff || { echo "cannot reverse"; exit 1; }
echo "== demo without change (expect ok)"
go test -count=1 -run "$demo" "./$pkg/" 2>&1 | grep -E "^(--- FAIL|FAIL|ok|panic)" | head -5
git apply /tmp/confirm-$$.diff; rm -f /tmp/confirm-$$.diff
if [ -n "$related" ]; then
  echo "== related existing tests with change (expect ok)"
  go test -count=1 -timeout 60m -run "$related" "./$pkg/" 2>&1 | grep -E "^(--- FAIL|FAIL|ok|panic)" | head -8
fi
git status --short | head -5
