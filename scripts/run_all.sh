#!/bin/bash
# usage: run_all.sh [quick|thorough] — runs every claimed check in sequence, prints a summary line per check.
cd "$(dirname "$0")/.." || exit 2
tier="${1:-quick}"
rc=0
for p in $(python3 -c "import json;print(' '.join(c['property_id'] for c in json.load(open('MANIFEST.json'))['checks']))"); do
  out=$(scripts/check.sh "$p" "$tier" 2>&1); r=$?
  echo "$out" | grep -E "^(VIOLATION|$p $tier|harness|warning)" | cut -c1-300
  echo "== $p exit $r"
  [ $r -ne 0 ] && rc=1
done
exit $rc
