#!/bin/bash
# usage: check.sh <property> <quick|thorough>
# cwd=/verif. Rebuilds from /repo's working tree, then runs the seeded check.
set -u
cd "$(dirname "$0")/.." || exit 2
. scripts/env.sh
prop="$1"; tier="${2:-${VERIF_TIER:-quick}}"
( flock 9; scripts/build.sh ) 9>/tmp/.verifsim-build.lock || exit 2
exec bin/verifsim check "$prop" --tier "$tier"
