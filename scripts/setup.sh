#!/bin/bash
# Run once after a fresh restore, offline: pre-build the harness (cold ~4 min).
set -u
cd "$(dirname "$0")/.." || exit 2
. scripts/env.sh
scripts/build.sh || exit 2
bin/verifsim list >/dev/null || exit 2
# stub validation: SimStore must agree with real git (ids included). A
# disagreement is reported loudly but does not stop the setup: if it comes from
# a change in pkg/gitinterface the real-git slices of the checks are the ones
# to report it, property by property.
bin/verifsim diffstore --n 3 || echo "WARNING: the SimStore stub and pkg/gitinterface disagree (see above); results of SimStore-based checks describe the stub's contract" >&2
echo "setup ok"
