#!/bin/bash
# Run once after a fresh restore, offline: pre-build the harness (cold ~4 min).
set -u
cd "$(dirname "$0")/.." || exit 2
. scripts/env.sh
scripts/build.sh || exit 2
bin/verifsim list >/dev/null || exit 2
# stub validation: SimStore must agree with real git (ids included)
bin/verifsim diffstore --n 3 || exit 2
echo "setup ok"
