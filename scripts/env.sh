# Offline Go environment for every script (see DESIGN.md §2).
export GOFLAGS=-mod=mod
export GOPROXY=off
export GOTOOLCHAIN=auto
export VERIF_DIR="${VERIF_DIR:-/verif}"
export VERIF_REPO="${VERIF_REPO:-/repo}"
