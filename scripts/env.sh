# Offline Go environment for every script (see DESIGN.md §2).
export GOFLAGS=-mod=mod
export GOPROXY=off
export GOTOOLCHAIN=auto
# the tree this script lives in (a snapshot of /verif works from wherever it is)
export VERIF_DIR="${VERIF_DIR:-$(cd "$(dirname "${BASH_SOURCE[0]}")/.." && pwd)}"
export VERIF_REPO="${VERIF_REPO:-/repo}"
