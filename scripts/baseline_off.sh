#!/bin/bash
# Runs the repository's own test suite with the verif guard OFF.
. "$(dirname "$0")/env.sh"
cd /repo && go build ./... && go test -vet=off -count=1 -timeout 25m ./...
