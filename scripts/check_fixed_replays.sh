#!/bin/bash
# For every "fixed" finding: undo its fix commit in a scratch worktree of /repo,
# build the harness against that tree and require that the committed regression
# replay reproduces there (so the replay would report the defect if it ever
# returned). Run after harness changes; scratch trees are removed.
# usage: check_fixed_replays.sh [finding-id-prefix]
set -u
. "$(dirname "$0")/env.sh"
cd /verif || exit 2
only="${1:-}"
rc=0
python3 - "$only" <<'PY' > /dev/shm/.fixed.$$
import json,sys
only=sys.argv[1]
by={}
for f in json.load(open('known_findings.json'))['findings']:
    if f['status']=='fixed' and f['id'].startswith(only):
        by.setdefault(f['commit'],[]).append(f['id']+'='+f['replay'])
for c,l in by.items(): print(c,' '.join(l))
PY
while read -r commit rest; do
  wt=$(mktemp -d /tmp/wt-rev-XXXXXX); rmdir "$wt"
  git -C /repo worktree add -q --detach "$wt" HEAD || { echo "cannot add worktree"; rc=2; continue; }
  if ! git -C "$wt" revert --no-commit "$commit" >/dev/null 2>&1; then
    echo "SKIP $commit: does not revert cleanly on top of later fixes ($rest)"
    git -C /repo worktree remove --force "$wt"; continue
  fi
  scratch=$(mktemp -d /dev/shm/verif-rev-XXXXXX)
  cp -r /verif/sim "$scratch/sim"; cp /verif/known_findings.json "$scratch/"; cp -r /verif/findings "$scratch/findings"
  ( cd "$scratch/sim" && sed -i "s#^replace github.com/gittuf/gittuf => .*#replace github.com/gittuf/gittuf => $wt#" go.mod && cp "$wt/go.sum" go.sum && go build -tags verif -o "$scratch/verifsim" ./cmd/verifsim ) 2> "$scratch/build.log" || { echo "SKIP $commit: a later fix builds on it, the tree with only this commit reverted does not compile ($rest)"; }
  if [ -x "$scratch/verifsim" ]; then
    for item in $rest; do
      id="${item%%=*}"; replay="${item#*=}"
      out=$(cd "$scratch" && VERIF_DIR="$scratch" timeout 900 ./verifsim replay "$replay" 2>&1 | head -1)
      case "$out" in
        REPRODUCED*) echo "ok $id reproduces with $commit reverted";;
        DIVERGED*) if [ "${REFRESH:-}" != "" ]; then VERIFSIM="$scratch/verifsim" python3 scripts/refresh_finding.py "$replay" >/dev/null && echo "refreshed $id (same class, digest re-recorded on the tree with $commit reverted)"; else echo "STALE-DIGEST $id: same class reproduces with $commit reverted but the recorded digest differs (REFRESH=1 re-records it)"; rc=1; fi;;
        *) echo "STALE $id: with $commit reverted the replay says: $out"; rc=1;;
      esac
    done
  fi
  rm -rf "$scratch"
  git -C /repo worktree remove --force "$wt"
done < /dev/shm/.fixed.$$
rm -f /dev/shm/.fixed.$$
exit $rc
