#!/bin/bash
# Proves the machinery: determinism across processes and GOMAXPROCS values,
# and agreement of the SimStore stub with real git. Exit 2 on any disagreement.
cd "$(dirname "$0")/.." || exit 2
. scripts/env.sh
scripts/build.sh || exit 2
rc=0
bin/verifsim selftest-determinism --n "${1:-40}" C01 C02 C03 C04 C07 C08 C09 C11 C12 C16 C17 C19 || rc=2
bin/verifsim selftest-determinism --n 6 C10 C15 C18 || rc=2
bin/verifsim diffstore --n "${2:-20}" || rc=2
exit $rc
