// verifsim: deterministic simulation checks for gittuf.
//
//	verifsim check <ID> [--tier quick|thorough] [--seed N] [--workers N] [--runs N] [--budget S]
//	verifsim worker <ID> ...            (internal)
//	verifsim replay <file>
//	verifsim one <ID> --seed N --idx I   run one generated case in-process and print the result
package main

import (
	"encoding/json"
	"flag"
	"fmt"
	"os"
	"sort"
	"strconv"
	"strings"
	"time"

	"github.com/gittuf/gittuf/verifsim/core"
	"github.com/gittuf/gittuf/verifsim/props"
)

func usage() {
	fmt.Fprintln(os.Stderr, "usage: verifsim check|worker|replay|one|list ...")
	os.Exit(2)
}

func tierCfg(id, tier string) core.TierCfg {
	if m, ok := core.TierTable[id]; ok {
		if t, ok := m[tier]; ok {
			return t
		}
	}
	if tier == "thorough" {
		return core.TierCfg{Runs: 200000, BudgetS: 900}
	}
	return core.TierCfg{Runs: 20000, BudgetS: 60}
}

func envSeed() uint64 {
	if s := os.Getenv("VERIF_SEED"); s != "" {
		if v, err := strconv.ParseUint(s, 10, 64); err == nil {
			return v
		}
		if v, err := strconv.ParseInt(s, 10, 64); err == nil {
			return uint64(v)
		}
	}
	return 1
}

func main() {
	if len(os.Args) < 2 {
		usage()
	}
	switch os.Args[1] {
	case "list":
		for id := range core.Drivers {
			fmt.Println(id)
		}
	case "check":
		if len(os.Args) < 3 {
			usage()
		}
		id := os.Args[2]
		fs := flag.NewFlagSet("check", flag.ExitOnError)
		tier := fs.String("tier", envOr("VERIF_TIER", "quick"), "quick|thorough")
		seed := fs.Uint64("seed", envSeed(), "seed")
		workers := fs.Int("workers", 16, "worker processes")
		runs := fs.Uint64("runs", 0, "max runs (0 = tier default)")
		budget := fs.Int("budget", 0, "wall-clock budget seconds (0 = tier default)")
		_ = fs.Parse(os.Args[3:])
		d, ok := core.Drivers[id]
		if !ok {
			fmt.Fprintf(os.Stderr, "unknown property %s\n", id)
			os.Exit(2)
		}
		cfg := tierCfg(id, *tier)
		if *runs > 0 {
			cfg.Runs = *runs
		}
		if b := os.Getenv("VERIF_BUDGET_S"); b != "" && *budget == 0 {
			if v, err := strconv.Atoi(b); err == nil {
				*budget = v
			}
		}
		if *budget > 0 {
			cfg.BudgetS = *budget
		}
		os.Exit(core.Check(d, *tier, *seed, *workers, cfg))
	case "worker":
		id := os.Args[2]
		fs := flag.NewFlagSet("worker", flag.ExitOnError)
		tier := fs.String("tier", "quick", "")
		seed := fs.Uint64("seed", 1, "")
		w := fs.Int("w", 0, "")
		nw := fs.Int("nw", 1, "")
		runs := fs.Uint64("runs", 100, "")
		deadline := fs.Int64("deadline", 0, "")
		active := fs.String("active", "", "")
		_ = fs.Parse(os.Args[3:])
		d := core.Drivers[id]
		act := map[string]bool{}
		for _, a := range strings.Split(*active, ",") {
			if a != "" {
				act[a] = true
			}
		}
		sum := core.RunWorker(d, *tier, *seed, *w, *nw, *runs, time.Unix(*deadline, 0), core.LoadFindings(), act)
		b, _ := json.Marshal(sum)
		fmt.Println(string(b))
	case "digests":
		id := os.Args[2]
		fs := flag.NewFlagSet("digests", flag.ExitOnError)
		tier := fs.String("tier", "quick", "")
		seed := fs.Uint64("seed", 1, "")
		from := fs.Uint64("from", 0, "")
		to := fs.Uint64("to", 10, "")
		_ = fs.Parse(os.Args[3:])
		core.Digests(core.Drivers[id], *tier, *seed, *from, *to)
	case "selftest-determinism":
		fs := flag.NewFlagSet("selftest", flag.ExitOnError)
		n := fs.Uint64("n", 40, "run indexes per property")
		seed := fs.Uint64("seed", envSeed(), "")
		_ = fs.Parse(os.Args[2:])
		ids := fs.Args()
		if len(ids) == 0 {
			for id := range core.Drivers {
				ids = append(ids, id)
			}
			sort.Strings(ids)
		}
		os.Exit(core.SelfTestDeterminism(ids, *n, *seed))
	case "exec": // execute the case of a replay file and print the full result
		rp, err := core.ReadReplay(os.Args[2])
		if err != nil {
			fmt.Fprintln(os.Stderr, err)
			os.Exit(2)
		}
		res := core.SafeExecute(core.Drivers[rp.Property], rp.Case)
		b, _ := json.MarshalIndent(res, "", " ")
		fmt.Println(string(b))
	case "diffstore":
		fs := flag.NewFlagSet("diffstore", flag.ExitOnError)
		n := fs.Int("n", 10, "sequences")
		seed := fs.Uint64("seed", envSeed(), "")
		_ = fs.Parse(os.Args[2:])
		os.Exit(props.DiffStore(*seed, *n))
	case "replay":
		if len(os.Args) < 3 {
			usage()
		}
		os.Exit(core.ReplayFile(os.Args[2]))
	case "one":
		id := os.Args[2]
		fs := flag.NewFlagSet("one", flag.ExitOnError)
		tier := fs.String("tier", "quick", "")
		seed := fs.Uint64("seed", envSeed(), "")
		idx := fs.Uint64("idx", 0, "")
		dump := fs.Bool("case", false, "print the generated case")
		runseed := fs.Uint64("runseed", 0, "run seed (overrides seed/idx)")
		_ = fs.Parse(os.Args[3:])
		d := core.Drivers[id]
		rs := core.SeedFor(*seed, *idx)
		if *runseed != 0 {
			rs = *runseed
		}
		c := d.Generate(core.NewRand(rs), *tier, *idx)
		if c == nil {
			fmt.Println("generator returned no case for this index")
			return
		}
		c.Seed = rs
		if *dump {
			b, _ := json.MarshalIndent(c, "", " ")
			fmt.Println(string(b))
		}
		res := d.Execute(c)
		b, _ := json.MarshalIndent(res, "", " ")
		fmt.Println(string(b))
	default:
		usage()
	}
}

func envOr(k, d string) string {
	if v := os.Getenv(k); v != "" {
		return v
	}
	return d
}
