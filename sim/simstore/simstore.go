// Package simstore is the simulated disk: an in-memory implementation of
// gitstore.Storer with real Git object encodings and SHA-1 ids. Objects are
// content-addressed and immutable and live in a Pool shared by every fork of a
// world; references are per Store and are what Fork/Snapshot copy. Commit is
// deliberately split into read-tip / write / compare-and-set steps by the
// interception layer (package sched), so the races real Git has are not hidden.
package simstore

import (
	"bytes"
	"crypto/sha1" //nolint:gosec
	"encoding/hex"
	"errors"
	"fmt"
	"sort"
	"strings"
	"time"

	"github.com/gittuf/gittuf/pkg/githash"
	"github.com/gittuf/gittuf/pkg/gitstore"
	"github.com/hiddeco/sshsig"
	"golang.org/x/crypto/ssh"
)

var (
	ErrObjectNotFound = errors.New("simstore: object not found")
	ErrNotCommit      = errors.New("simstore: object is not a commit")
	ErrNotTree        = errors.New("simstore: object is not a tree")
	ErrNotBlob        = errors.New("simstore: object is not a blob")
	ErrNotTag         = errors.New("simstore: object is not a tag")
	ErrCASFailed      = errors.New("simstore: reference changed concurrently (compare-and-set failed)")
	ErrMergeConflict  = errors.New("simstore: merge conflict")
	ErrTreePath       = errors.New("tree does not have requested path")
)

type Kind byte

const (
	KBlob Kind = iota
	KTree
	KCommit
	KTag
)

type TreeEnt struct {
	Name string
	ID   string // hex
	Dir  bool
}

type CommitObj struct {
	Tree      string
	Parents   []string
	Message   string
	Signature string
	Payload   []byte // encoding without signature
	When      int64
}

type TagObj struct {
	Target    string
	Name      string
	Message   string
	Signature string
	Payload   []byte
}

type Obj struct {
	Kind   Kind
	Data   []byte
	Tree   []TreeEnt
	Commit *CommitObj
	Tag    *TagObj
}

// Pool is the shared, append-only object database of one world.
type Pool struct {
	objs map[string]*Obj
}

func NewPool() *Pool { return &Pool{objs: map[string]*Obj{}} }

func (p *Pool) Len() int { return len(p.objs) }

func hashObject(kind string, data []byte) string {
	h := sha1.New() //nolint:gosec
	fmt.Fprintf(h, "%s %d\x00", kind, len(data))
	h.Write(data)
	return hex.EncodeToString(h.Sum(nil))
}

func (p *Pool) put(kindName string, o *Obj) string {
	id := hashObject(kindName, o.Data)
	if _, has := p.objs[id]; !has {
		p.objs[id] = o
	}
	return id
}

func (p *Pool) Get(id string) (*Obj, bool) {
	o, ok := p.objs[id]
	return o, ok
}

func (p *Pool) PutBlob(data []byte) string {
	return p.put("blob", &Obj{Kind: KBlob, Data: append([]byte(nil), data...)})
}

func sortName(e TreeEnt) string {
	if e.Dir {
		return e.Name + "/"
	}
	return e.Name
}

func (p *Pool) PutTree(ents []TreeEnt) string {
	es := append([]TreeEnt(nil), ents...)
	sort.Slice(es, func(i, j int) bool { return sortName(es[i]) < sortName(es[j]) })
	var b bytes.Buffer
	for _, e := range es {
		if e.Dir {
			b.WriteString("40000 ")
		} else {
			b.WriteString("100644 ")
		}
		b.WriteString(e.Name)
		b.WriteByte(0)
		raw, _ := hex.DecodeString(e.ID)
		b.Write(raw)
	}
	return p.put("tree", &Obj{Kind: KTree, Data: b.Bytes(), Tree: es})
}

const EmptyTreeID = "4b825dc642cb6eb9a060e54bf8d69288fbee4904"

// CommitSpec describes a commit to create.
type CommitSpec struct {
	Tree      string
	Parents   []string
	Message   string
	Name      string
	Email     string
	When      int64
	SignerPEM []byte // nil: unsigned
}

func encodeCommit(c *CommitSpec, sig string) []byte {
	var b bytes.Buffer
	fmt.Fprintf(&b, "tree %s\n", c.Tree)
	for _, p := range c.Parents {
		fmt.Fprintf(&b, "parent %s\n", p)
	}
	ident := fmt.Sprintf("%s <%s> %d +0000", c.Name, c.Email, c.When)
	fmt.Fprintf(&b, "author %s\n", ident)
	fmt.Fprintf(&b, "committer %s\n", ident)
	if sig != "" {
		b.WriteString("gpgsig ")
		lines := strings.Split(strings.TrimSuffix(sig, "\n"), "\n")
		b.WriteString(strings.Join(lines, "\n "))
		b.WriteString("\n")
	}
	b.WriteString("\n")
	b.WriteString(c.Message)
	return b.Bytes()
}

var signerCache = map[string]ssh.Signer{}

func signerFor(pem []byte) (ssh.Signer, error) {
	k := string(pem)
	if s, ok := signerCache[k]; ok {
		return s, nil
	}
	s, err := ssh.ParsePrivateKey(pem)
	if err != nil {
		return nil, err
	}
	signerCache[k] = s
	return s, nil
}

// SignSSH produces the armored sshsig (namespace git, SHA-512) Git itself and
// gittuf's CommitUsingSpecificKey produce.
func SignSSH(payload, pem []byte) (string, error) {
	s, err := signerFor(pem)
	if err != nil {
		return "", err
	}
	sig, err := sshsig.Sign(bytes.NewReader(payload), s, sshsig.HashSHA512, "git")
	if err != nil {
		return "", err
	}
	return string(sshsig.Armor(sig)), nil
}

func (p *Pool) PutCommit(c *CommitSpec) (string, error) {
	payload := encodeCommit(c, "")
	sig := ""
	if c.SignerPEM != nil {
		var err error
		sig, err = SignSSH(payload, c.SignerPEM)
		if err != nil {
			return "", err
		}
	}
	return p.PutCommitWithSignature(c, sig), nil
}

// PutCommitWithSignature stores a commit carrying an arbitrary signature
// string (adversary: lifted or garbage signatures).
func (p *Pool) PutCommitWithSignature(c *CommitSpec, sig string) string {
	payload := encodeCommit(c, "")
	data := payload
	if sig != "" {
		data = encodeCommit(c, sig)
	}
	return p.put("commit", &Obj{Kind: KCommit, Data: data, Commit: &CommitObj{
		Tree: c.Tree, Parents: append([]string(nil), c.Parents...), Message: c.Message,
		Signature: sig, Payload: payload, When: c.When,
	}})
}

func (p *Pool) PutTag(target, name, message string, when int64, signerPEM []byte) (string, error) {
	var b bytes.Buffer
	fmt.Fprintf(&b, "object %s\ntype commit\ntag %s\ntagger sim <sim@example.com> %d +0000\n\n%s", target, name, when, message)
	payload := append([]byte(nil), b.Bytes()...)
	sig := ""
	if signerPEM != nil {
		var err error
		sig, err = SignSSH(payload, signerPEM)
		if err != nil {
			return "", err
		}
		b.WriteString(sig)
	}
	return p.put("tag", &Obj{Kind: KTag, Data: b.Bytes(), Tag: &TagObj{Target: target, Name: name, Message: message, Signature: sig, Payload: payload}}), nil
}

// Store is one repository: the shared pool plus its own references.
type Store struct {
	Pool *Pool
	Refs map[string]string
	// Clock is the simulated clock commits are stamped from.
	Clock *Clock
}

type Clock struct{ T int64 }

func (c *Clock) Now() int64 { return c.T }
func (c *Clock) Tick() int64 {
	c.T++
	return c.T
}

var Epoch = time.Date(2024, 1, 1, 0, 0, 0, 0, time.UTC).Unix()

func New() *Store {
	return &Store{Pool: NewPool(), Refs: map[string]string{}, Clock: &Clock{T: Epoch}}
}

// Fork returns a store sharing the object pool and clock value with its own
// copy of the references.
func (s *Store) Fork() *Store {
	n := &Store{Pool: s.Pool, Refs: make(map[string]string, len(s.Refs)), Clock: &Clock{T: s.Clock.T}}
	for k, v := range s.Refs {
		n.Refs[k] = v
	}
	return n
}

type Snapshot struct {
	refs map[string]string
	t    int64
}

func (s *Store) Snapshot() *Snapshot {
	sn := &Snapshot{refs: make(map[string]string, len(s.Refs)), t: s.Clock.T}
	for k, v := range s.Refs {
		sn.refs[k] = v
	}
	return sn
}

func (s *Store) Restore(sn *Snapshot) {
	s.Refs = make(map[string]string, len(sn.refs))
	for k, v := range sn.refs {
		s.Refs[k] = v
	}
	s.Clock.T = sn.t
}

// RefsSorted lists references in name order (canonical form for digests).
func (s *Store) RefsSorted() [][2]string {
	out := make([][2]string, 0, len(s.Refs))
	for k, v := range s.Refs {
		out = append(out, [2]string{k, v})
	}
	sort.Slice(out, func(i, j int) bool { return out[i][0] < out[j][0] })
	return out
}

func H(hexID string) githash.Hash {
	b, _ := hex.DecodeString(hexID)
	return githash.Hash(b)
}

func (s *Store) commit(id string) (*CommitObj, error) {
	o, ok := s.Pool.objs[id]
	if !ok {
		return nil, fmt.Errorf("%w: %s", ErrObjectNotFound, id)
	}
	if o.Kind != KCommit {
		return nil, fmt.Errorf("%w: %s", ErrNotCommit, id)
	}
	return o.Commit, nil
}

func (s *Store) tree(id string) ([]TreeEnt, error) {
	if id == EmptyTreeID {
		return nil, nil
	}
	o, ok := s.Pool.objs[id]
	if !ok {
		return nil, fmt.Errorf("%w: %s", ErrObjectNotFound, id)
	}
	if o.Kind != KTree {
		return nil, fmt.Errorf("%w: %s", ErrNotTree, id)
	}
	return o.Tree, nil
}

// ---- raw (un-intercepted) storage primitives; package sched wraps them ----

func (s *Store) GetRef(name string) (string, bool) {
	v, ok := s.Refs[name]
	return v, ok
}

func (s *Store) SetRef(name, id string) { s.Refs[name] = id }

func (s *Store) DelRef(name string) { delete(s.Refs, name) }

// CASRef sets name to newID iff it currently equals oldID ("" = must not exist).
func (s *Store) CASRef(name, newID, oldID string) error {
	cur := s.Refs[name]
	if cur != oldID {
		return fmt.Errorf("%w: %s is %s, expected %s", ErrCASFailed, name, cur, oldID)
	}
	s.Refs[name] = newID
	return nil
}

func (s *Store) ReadBlob(id string) ([]byte, error) {
	o, ok := s.Pool.objs[id]
	if !ok {
		return nil, fmt.Errorf("%w: %s", ErrObjectNotFound, id)
	}
	if o.Kind != KBlob {
		return nil, fmt.Errorf("%w: %s", ErrNotBlob, id)
	}
	return append([]byte(nil), o.Data...), nil
}

type node struct {
	id       string // set for leaves / grafted subtrees
	dir      bool
	children map[string]*node
}

// WriteTreeEntries builds (nested) trees from path entries.
func (s *Store) WriteTreeEntries(entries []gitstore.TreeEntry) (string, error) {
	seen := map[string]bool{}
	root := &node{dir: true, children: map[string]*node{}}
	for _, e := range entries {
		if seen[e.Path] {
			return "", fmt.Errorf("%w: %s", gitstore.ErrDuplicateTreePath, e.Path)
		}
		seen[e.Path] = true
	}
	for _, e := range entries {
		parts := strings.Split(e.Path, "/")
		cur := root
		for i, part := range parts {
			last := i == len(parts)-1
			ch, ok := cur.children[part]
			if last {
				if ok {
					// an intermediate tree or leaf already occupies this name
					return "", fmt.Errorf("simstore: conflicting tree entries at %s", e.Path)
				}
				cur.children[part] = &node{id: e.ID.String(), dir: e.Kind == gitstore.KindSubtree}
			} else {
				if !ok {
					ch = &node{dir: true, children: map[string]*node{}}
					cur.children[part] = ch
				} else if ch.children == nil {
					return "", fmt.Errorf("simstore: conflicting tree entries at %s", e.Path)
				}
				cur = ch
			}
		}
	}
	return s.writeNode(root), nil
}

func (s *Store) writeNode(n *node) string {
	if n.children == nil {
		return n.id
	}
	ents := make([]TreeEnt, 0, len(n.children))
	for name, ch := range n.children {
		ents = append(ents, TreeEnt{Name: name, ID: s.writeNode(ch), Dir: ch.dir})
	}
	if len(ents) == 0 {
		return EmptyTreeID
	}
	return s.Pool.PutTree(ents)
}

func (s *Store) AllFiles(treeID string) (map[string]string, error) {
	out := map[string]string{}
	if err := s.walkTree(treeID, "", out); err != nil {
		return nil, err
	}
	return out, nil
}

func (s *Store) walkTree(treeID, prefix string, out map[string]string) error {
	ents, err := s.tree(treeID)
	if err != nil {
		return err
	}
	for _, e := range ents {
		if e.Dir {
			if err := s.walkTree(e.ID, prefix+e.Name+"/", out); err != nil {
				return err
			}
		} else {
			out[prefix+e.Name] = e.ID
		}
	}
	return nil
}

func (s *Store) TreeEntries(treeID string) ([]TreeEnt, error) { return s.tree(treeID) }

func (s *Store) PathID(treeID, treePath string) (string, error) {
	treePath = strings.TrimSuffix(treePath, "/")
	cur := treeID
	for _, comp := range strings.Split(treePath, "/") {
		ents, err := s.tree(cur)
		if err != nil {
			return "", err
		}
		found := false
		for _, e := range ents {
			if e.Name == comp {
				cur = e.ID
				found = true
				break
			}
		}
		if !found {
			return "", fmt.Errorf("%w: %s", ErrTreePath, treePath)
		}
	}
	return cur, nil
}

func (s *Store) CommitInfo(id string) (*CommitObj, error) { return s.commit(id) }

// Ancestors returns the set of commits reachable from id (inclusive).
func (s *Store) Ancestors(id string) (map[string]bool, error) {
	seen := map[string]bool{}
	stack := []string{id}
	for len(stack) > 0 {
		c := stack[len(stack)-1]
		stack = stack[:len(stack)-1]
		if seen[c] {
			continue
		}
		co, err := s.commit(c)
		if err != nil {
			return nil, err
		}
		seen[c] = true
		stack = append(stack, co.Parents...)
	}
	return seen, nil
}

func (s *Store) IsAncestor(ancestor, descendant string) (bool, error) {
	if _, err := s.commit(ancestor); err != nil {
		return false, err
	}
	if _, err := s.commit(descendant); err != nil {
		return false, err
	}
	if ancestor == descendant {
		return true, nil
	}
	seen := map[string]bool{}
	stack := []string{descendant}
	for len(stack) > 0 {
		c := stack[len(stack)-1]
		stack = stack[:len(stack)-1]
		if seen[c] {
			continue
		}
		seen[c] = true
		if c == ancestor {
			return true, nil
		}
		co, err := s.commit(c)
		if err != nil {
			return false, err
		}
		stack = append(stack, co.Parents...)
	}
	return false, nil
}

// CommitsBetween = reachable from newID and not from oldID ("" = none), sorted by id.
func (s *Store) CommitsBetween(newID, oldID string) ([]string, error) {
	n, err := s.Ancestors(newID)
	if err != nil {
		return nil, err
	}
	var o map[string]bool
	if oldID != "" {
		o, err = s.Ancestors(oldID)
		if err != nil {
			return nil, err
		}
	}
	out := []string{}
	for c := range n {
		if !o[c] {
			out = append(out, c)
		}
	}
	sort.Strings(out)
	return out, nil
}

func (s *Store) diffTrees(a, b string) ([]string, error) {
	fa := map[string]string{}
	fb := map[string]string{}
	var err error
	if a != "" {
		if fa, err = s.AllFiles(a); err != nil {
			return nil, err
		}
	}
	if fb, err = s.AllFiles(b); err != nil {
		return nil, err
	}
	set := map[string]bool{}
	for p, id := range fa {
		if fb[p] != id {
			set[p] = true
		}
	}
	for p, id := range fb {
		if fa[p] != id {
			set[p] = true
		}
	}
	out := make([]string, 0, len(set))
	for p := range set {
		out = append(out, p)
	}
	sort.Strings(out)
	return out, nil
}

// ChangedPaths follows the documented contract of
// gitinterface.GetFilePathsChangedByCommit.
func (s *Store) ChangedPaths(commitID string) ([]string, error) {
	c, err := s.commit(commitID)
	if err != nil {
		return nil, err
	}
	switch len(c.Parents) {
	case 0:
		files, err := s.AllFiles(c.Tree)
		if err != nil {
			return nil, err
		}
		out := make([]string, 0, len(files))
		for p := range files {
			out = append(out, p)
		}
		sort.Strings(out)
		if len(out) == 0 {
			return []string{""}, nil // strings.Split("", "\n") in the real implementation
		}
		return out, nil
	case 1:
		pc, err := s.commit(c.Parents[0])
		if err != nil {
			return nil, err
		}
		out, err := s.diffTrees(pc.Tree, c.Tree)
		if err != nil {
			return nil, err
		}
		if len(out) == 0 {
			return nil, nil
		}
		return out, nil
	default:
		last, err := s.commit(c.Parents[len(c.Parents)-1])
		if err != nil {
			return nil, err
		}
		d, err := s.diffTrees(last.Tree, c.Tree)
		if err != nil {
			return nil, err
		}
		if len(d) == 0 {
			return nil, nil
		}
		set := map[string]bool{}
		for _, p := range c.Parents {
			pc, err := s.commit(p)
			if err != nil {
				return nil, err
			}
			d, err := s.diffTrees(pc.Tree, c.Tree)
			if err != nil {
				return nil, err
			}
			for _, x := range d {
				set[x] = true
			}
		}
		out := make([]string, 0, len(set))
		for p := range set {
			out = append(out, p)
		}
		sort.Strings(out)
		return out, nil
	}
}

// mergeBase returns one best common ancestor (enough for the linear and
// simple-fork shapes the worlds generate), or "" if none.
func (s *Store) mergeBase(a, b string) (string, error) {
	aa, err := s.Ancestors(a)
	if err != nil {
		return "", err
	}
	// BFS from b; the first commit also reachable from a that is not an
	// ancestor of another candidate. Simple approach: collect candidates and
	// pick the one that no other candidate descends from.
	bb, err := s.Ancestors(b)
	if err != nil {
		return "", err
	}
	cands := []string{}
	for c := range bb {
		if aa[c] {
			cands = append(cands, c)
		}
	}
	sort.Strings(cands)
	best := ""
	for _, c := range cands {
		isBest := true
		for _, d := range cands {
			if c == d {
				continue
			}
			anc, err := s.IsAncestor(c, d)
			if err != nil {
				return "", err
			}
			if anc {
				isBest = false
				break
			}
		}
		if isBest {
			best = c
			break
		}
	}
	return best, nil
}

// MergeTree is a per-path three-way merge; any path changed differently on
// both sides is a conflict (error, as `git merge-tree` exits non-zero).
func (s *Store) MergeTree(a, b string) (string, error) {
	cb, err := s.commit(b)
	if err != nil {
		return "", err
	}
	if a == "" {
		return cb.Tree, nil
	}
	ca, err := s.commit(a)
	if err != nil {
		return "", err
	}
	base, err := s.mergeBase(a, b)
	if err != nil {
		return "", err
	}
	if base == "" {
		// `git merge-tree` refuses to merge unrelated histories
		return "", fmt.Errorf("%w: refusing to merge unrelated histories", ErrMergeConflict)
	}
	fbase := map[string]string{}
	{
		bc, _ := s.commit(base)
		if fbase, err = s.AllFiles(bc.Tree); err != nil {
			return "", err
		}
	}
	fa, err := s.AllFiles(ca.Tree)
	if err != nil {
		return "", err
	}
	fb, err := s.AllFiles(cb.Tree)
	if err != nil {
		return "", err
	}
	paths := map[string]bool{}
	for p := range fbase {
		paths[p] = true
	}
	for p := range fa {
		paths[p] = true
	}
	for p := range fb {
		paths[p] = true
	}
	entries := []gitstore.TreeEntry{}
	for p := range paths {
		o, x, y := fbase[p], fa[p], fb[p]
		var r string
		switch {
		case x == y:
			r = x
		case x == o:
			r = y
		case y == o:
			r = x
		default:
			return "", fmt.Errorf("%w at %s", ErrMergeConflict, p)
		}
		if r != "" {
			entries = append(entries, gitstore.TreeEntry{Path: p, ID: H(r), Kind: gitstore.KindBlob})
		}
	}
	return s.WriteTreeEntries(entries)
}
