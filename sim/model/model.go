// Package model is the reference model: a small executable statement of the
// properties' rules, fed ground truth from the simulator's own actions (who
// signed what, which policy spec was applied, which approvals were stored
// where). It never parses a commit message, an envelope or tree listing, and
// never calls a gittuf function.
package model

import (
	"fmt"
	"sort"
	"strings"

	"github.com/gittuf/gittuf/verifsim/world"
)

const (
	PolicyRef  = "refs/gittuf/policy"
	StagingRef = "refs/gittuf/policy-staging"
	AttRef     = "refs/gittuf/attestations"
)

// Match is the model's pattern matcher, restricted to the forms the generators
// emit: literal, single trailing '*' (prefix; '*' spans '/'), and "*".
func Match(pattern, path string) bool {
	switch {
	case pattern == "*":
		return true
	case strings.HasSuffix(pattern, "*") && !strings.Contains(strings.TrimSuffix(pattern, "*"), "*"):
		return strings.HasPrefix(path, strings.TrimSuffix(pattern, "*"))
	default:
		return pattern == path
	}
}

func ruleMatches(r *world.RuleSpec, path string) bool {
	for _, p := range r.Patterns {
		if Match(p, path) {
			return true
		}
	}
	return false
}

// Verifier is one consulted rule: its principals (with their keys) and threshold.
type Verifier struct {
	Name       string
	Principals []world.PrincipalSpec
	Threshold  int
}

// Walk is the documented pre-order delegation walk for a namespace path.
func Walk(p *world.PolicySpec, path string) []Verifier {
	if p == nil || p.Files["targets"] == nil {
		return nil
	}
	principals := map[string]world.PrincipalSpec{}
	add := func(f *world.RuleFileSpec) {
		for _, ps := range f.Principals {
			principals[ps.ID] = ps
		}
	}
	add(p.Files["targets"])
	queue := [][]world.RuleSpec{p.Files["targets"].Rules}
	seen := map[string]bool{"targets": true}
	out := []Verifier{}
	for len(queue) > 0 {
		group := queue[0]
		queue = queue[1:]
		for i := range group {
			r := &group[i]
			if !ruleMatches(r, path) {
				continue
			}
			v := Verifier{Name: r.Name, Threshold: r.Threshold}
			for _, id := range r.Principals {
				v.Principals = append(v.Principals, principals[id])
			}
			out = append(out, v)
			if seen[r.Name] {
				continue
			}
			if f, ok := p.Files[r.Name]; ok {
				seen[r.Name] = true
				add(f)
				queue = append([][]world.RuleSpec{f.Rules}, queue...)
				if r.Terminating {
					break
				}
			}
		}
	}
	return out
}

// AllPrincipals lists every principal defined anywhere in the policy.
func AllPrincipals(p *world.PolicySpec) []world.PrincipalSpec {
	m := map[string]world.PrincipalSpec{}
	for _, k := range p.RootKeys {
		ps := world.KeyPrincipal(k)
		m[ps.ID] = ps
	}
	for _, k := range p.TargetsKeys {
		ps := world.KeyPrincipal(k)
		m[ps.ID] = ps
	}
	for _, a := range p.Apps {
		for _, k := range a.Keys {
			ps := world.KeyPrincipal(k)
			m[ps.ID] = ps
		}
	}
	for _, f := range p.Files {
		for _, ps := range f.Principals {
			m[ps.ID] = ps
		}
	}
	ids := make([]string, 0, len(m))
	for id := range m {
		ids = append(ids, id)
	}
	sort.Strings(ids)
	out := []world.PrincipalSpec{}
	for _, id := range ids {
		out = append(out, m[id])
	}
	return out
}

// Signers is who vouched for one change.
type Signers struct {
	ObjectKey    int                        // key that signed the Git object (entry or commit); -1 none
	EnvelopeKeys map[int]bool               // keys with a valid signature on the authorization bound to exactly this change
	Approvers    map[string]map[string]bool // app name -> approver identities named by a trusted app's attestation
}

func hasKey(ps world.PrincipalSpec, k int) bool {
	for _, x := range ps.Keys {
		if x == k {
			return true
		}
	}
	return false
}

// Count returns how many distinct principals of the list are credited: the
// object signature credits at most one principal, envelope signatures credit
// each principal once, code-review identities credit persons once.
func Count(principals []world.PrincipalSpec, s Signers, trustedApps map[string]bool) int {
	credited := map[string]bool{}
	if s.ObjectKey >= 0 {
		for _, p := range principals {
			if hasKey(p, s.ObjectKey) {
				credited[p.ID] = true
				break
			}
		}
	}
	for _, p := range principals {
		if credited[p.ID] {
			continue
		}
		for _, k := range p.Keys {
			if s.EnvelopeKeys[k] {
				credited[p.ID] = true
				break
			}
		}
	}
	for _, p := range principals {
		if credited[p.ID] || !p.Person {
			continue
		}
		for app, ident := range p.Identities {
			if trustedApps[app] && s.Approvers[app][ident] {
				credited[p.ID] = true
				break
			}
		}
	}
	return len(credited)
}

// CountPooled is Count under the reading that pools the approver logins of all trusted apps and
// matches them against a person's identity on ANY app (what known finding C09-K1 describes). It is
// only used to tell whether that finding can explain an acceptance.
func CountPooled(principals []world.PrincipalSpec, s Signers, trustedApps map[string]bool) int {
	pool := map[string]bool{}
	for app, logins := range s.Approvers {
		if strings.Contains(app, "\x00") || !trustedApps[app] {
			continue
		}
		for l := range logins {
			pool[l] = true
		}
	}
	credited := Count(principals, s, trustedApps)
	// add persons credited only through pooling
	base := map[string]bool{}
	for _, p := range principals {
		one := Count([]world.PrincipalSpec{p}, s, trustedApps)
		if one > 0 {
			base[p.ID] = true
		}
	}
	for _, p := range principals {
		if base[p.ID] || !p.Person {
			continue
		}
		for _, ident := range p.Identities {
			if pool[ident] {
				credited++
				break
			}
		}
	}
	return credited
}

// SharesKeys reports whether two principals of the list own a common key.
func SharesKeys(principals []world.PrincipalSpec) bool {
	seen := map[int]string{}
	for _, p := range principals {
		for _, k := range p.Keys {
			if o, ok := seen[k]; ok && o != p.ID {
				return true
			}
			seen[k] = p.ID
		}
	}
	return false
}

// Decision for one entry.
type Decision struct {
	Authorized bool
	Protected  bool
	Why        string
	// GlobalFail is set when delegation rules are met (or absent) but a
	// matching global rule is not.
	GlobalFail bool
	// DelegationOK: the delegation rules alone are met (or the path is unprotected).
	DelegationOK bool
}

// Log is the model's view of the history: the simulator's ground truth.
type Log struct {
	W *world.World
}

func (l *Log) entries() []*world.EntryTruth { return l.W.Entries }

// PolicyBefore returns the policy state introduced by the last policy entry
// strictly before position i.
func (l *Log) PolicyBefore(i int) *world.PolicySpec {
	for j := i - 1; j >= 0; j-- {
		e := l.entries()[j]
		if e.Kind == "reference" && e.Ref == PolicyRef && e.Policy != nil {
			return e.Policy
		}
	}
	return nil
}

// AttBefore returns the attestation state introduced by the last attestation
// entry strictly before position i.
func (l *Log) AttBefore(i int) *world.AttState {
	for j := i - 1; j >= 0; j-- {
		e := l.entries()[j]
		if e.Kind == "reference" && e.Ref == AttRef {
			return e.Att
		}
	}
	return nil
}

// PolicyAsOf / AttAsOf: the state introduced by the last such entry among the first n entries.
func (l *Log) PolicyAsOf(n int) *world.PolicySpec {
	if n > len(l.entries()) {
		n = len(l.entries())
	}
	return l.PolicyBefore(n)
}

func (l *Log) AttAsOf(n int) *world.AttState {
	if n > len(l.entries()) {
		n = len(l.entries())
	}
	return l.AttBefore(n)
}

// Revoked: some annotation anywhere later in the log with skip=true names the entry.
func (l *Log) Revoked(i int) bool {
	id := l.entries()[i].ID
	for j := i + 1; j < len(l.entries()); j++ {
		a := l.entries()[j]
		if a.Kind == "annotation" && a.Skip {
			for _, t := range a.Targets {
				if t == id {
					return true
				}
			}
		}
	}
	return false
}

// PrevForRef returns the position of the previous reference-updater entry for
// the same ref before i (-1 if none).
func (l *Log) PrevForRef(i int) int {
	ref := l.entries()[i].Ref
	for j := i - 1; j >= 0; j-- {
		e := l.entries()[j]
		if (e.Kind == "reference" || e.Kind == "propagation") && e.Ref == ref {
			return j
		}
	}
	return -1
}

func (l *Log) treeOfTarget(target string) string {
	if c, ok := l.W.CommitIdx[target]; ok {
		return c.Tree
	}
	return ""
}

// SignersFor collects who vouched for entry i's change.
func (l *Log) SignersFor(i int) Signers { return l.SignersForAtt(i, l.AttBefore(i)) }

// SignersForAtt is SignersFor with the attestation state given explicitly.
func (l *Log) SignersForAtt(i int, att *world.AttState) Signers {
	e := l.entries()[i]
	s := Signers{ObjectKey: e.Signer, EnvelopeKeys: map[int]bool{}, Approvers: map[string]map[string]bool{}}
	if att == nil {
		return s
	}
	from := "0000000000000000000000000000000000000000"
	if p := l.PrevForRef(i); p >= 0 {
		from = l.entries()[p].Target
	}
	to := l.treeOfTarget(e.Target)
	if e.TagCommit != "" {
		to = e.TagCommit // a tag is approved for the commit it points to
	}
	key := world.ChangeKey(e.Ref, from, to)
	if a, ok := att.Authorizations[key]; ok {
		for k := range a {
			s.EnvelopeKeys[k] = true
		}
	}
	if cr, ok := att.Reviews[key]; ok && e.TagCommit == "" {
		for app, r := range cr {
			s.Approvers[app] = map[string]bool{}
			for _, id := range r.Approvers {
				s.Approvers[app][id] = true
			}
			s.Approvers[app+"\x00signer"] = map[string]bool{fmt.Sprint(r.SignerKey): true}
		}
	}
	return s
}

// Decide judges entry i (a reference or propagation entry for a user ref)
// against the policy and attestations in force immediately before it.
func (l *Log) Decide(i int) Decision { return l.DecideUnder(i, l.PolicyBefore(i), l.AttBefore(i)) }

// DecideUnder judges entry i against a given policy and attestation state
// (what the verdict would be if a verifier used those instead of the ones in
// force: used to tell what a stale lookup can and cannot explain).
func (l *Log) DecideUnder(i int, p *world.PolicySpec, att *world.AttState) Decision {
	e := l.entries()[i]
	if p == nil {
		return Decision{Why: "no policy in force"}
	}
	path := "git:" + e.Ref
	vs := Walk(p, path)
	s := l.SignersForAtt(i, att)
	// code-review approvals count only from trusted apps whose attestation was signed by the app's key
	trusted := map[string]bool{}
	for _, a := range p.Apps {
		if !a.Trusted {
			continue
		}
		if sg, ok := s.Approvers[a.Name+"\x00signer"]; ok {
			for _, k := range a.Keys {
				if sg[fmt.Sprint(k)] {
					trusted[a.Name] = true
				}
			}
		}
	}
	d := Decision{Protected: len(vs) > 0}
	if len(vs) == 0 {
		d.DelegationOK = true
	}
	for _, v := range vs {
		if v.Threshold >= 1 && len(v.Principals) > 0 && Count(v.Principals, s, trusted) >= v.Threshold {
			d.DelegationOK = true
			break
		}
	}
	if !d.DelegationOK {
		d.Why = fmt.Sprintf("no rule for %s is met by signer key %d and approvals %v", path, e.Signer, keysOf(s.EnvelopeKeys))
		return d
	}
	// global rules add constraints
	all := AllPrincipals(p)
	for _, g := range p.GlobalRules {
		matches := false
		for _, pat := range g.Patterns {
			if Match(pat, path) {
				matches = true
			}
		}
		if !matches {
			continue
		}
		switch g.Kind {
		case "threshold":
			if Count(all, s, trusted) < g.Threshold {
				d.GlobalFail = true
				d.Why = fmt.Sprintf("global rule %s needs %d authenticated principals", g.Name, g.Threshold)
				return d
			}
		case "block-force-pushes":
			prev := l.prevUnskippedForRef(i)
			if prev >= 0 && !l.descends(e.Target, l.entries()[prev].Target) {
				d.GlobalFail = true
				d.Why = fmt.Sprintf("global rule %s: target does not descend from the previous unskipped state", g.Name)
				return d
			}
		}
	}
	d.Authorized = true
	return d
}

// PooledAuthorizes reports whether entry i meets a delegation rule under CountPooled.
func (l *Log) PooledAuthorizes(i int) bool {
	e := l.entries()[i]
	p := l.PolicyBefore(i)
	if p == nil {
		return false
	}
	s := l.SignersFor(i)
	trusted := map[string]bool{}
	for _, a := range p.Apps {
		if !a.Trusted {
			continue
		}
		if sg, ok := s.Approvers[a.Name+"\x00signer"]; ok {
			for _, k := range a.Keys {
				if sg[fmt.Sprint(k)] {
					trusted[a.Name] = true
				}
			}
		}
	}
	for _, v := range Walk(p, "git:"+e.Ref) {
		if v.Threshold >= 1 && CountPooled(v.Principals, s, trusted) >= v.Threshold {
			return true
		}
	}
	return false
}

func (l *Log) prevUnskippedForRef(i int) int {
	ref := l.entries()[i].Ref
	for j := i - 1; j >= 0; j-- {
		e := l.entries()[j]
		if (e.Kind == "reference" || e.Kind == "propagation") && e.Ref == ref {
			if e.Kind == "reference" && l.Revoked(j) {
				continue
			}
			return j
		}
	}
	return -1
}

func (l *Log) descends(commit, ancestor string) bool {
	ok, err := l.W.St.IsAncestor(ancestor, commit)
	return err == nil && ok
}

func keysOf(m map[int]bool) []int {
	out := []int{}
	for k := range m {
		out = append(out, k)
	}
	sort.Ints(out)
	return out
}

// PositionsForRef lists positions of reference-updater entries for ref.
func (l *Log) PositionsForRef(ref string) []int {
	out := []int{}
	for i, e := range l.entries() {
		if (e.Kind == "reference" || e.Kind == "propagation") && e.Ref == ref {
			out = append(out, i)
		}
	}
	return out
}

// ---------------------------------------------------------------------------
// file rules

// NewCommits lists the commits entry i introduces to its reference: reachable
// from its target and not from the target of the previous entry for the same
// reference (all reachable commits if there is none). known is false when a
// commit outside the simulator's ground truth is met.
func (l *Log) NewCommits(i int) (out []*world.CommitTruth, known bool) {
	e := l.entries()[i]
	old := map[string]bool{}
	if p := l.PrevForRef(i); p >= 0 {
		stack := []string{l.entries()[p].Target}
		for len(stack) > 0 {
			id := stack[len(stack)-1]
			stack = stack[:len(stack)-1]
			if old[id] {
				continue
			}
			old[id] = true
			c, ok := l.W.CommitIdx[id]
			if !ok {
				return nil, false
			}
			stack = append(stack, c.Parents...)
		}
	}
	seen := map[string]bool{}
	stack := []string{e.Target}
	for len(stack) > 0 {
		id := stack[len(stack)-1]
		stack = stack[:len(stack)-1]
		if old[id] || seen[id] {
			continue
		}
		seen[id] = true
		c, ok := l.W.CommitIdx[id]
		if !ok {
			return nil, false
		}
		out = append(out, c)
		stack = append(stack, c.Parents...)
	}
	sort.Slice(out, func(a, b int) bool { return out[a].ID < out[b].ID })
	return out, true
}

// FileDecision is the model's judgement of entry i against the file rules of
// the policy in force before it.
type FileDecision struct {
	OK          bool
	Unspecified bool // merge commits or unknown commits are involved: the statement does not settle it
	Protected   bool // some changed path is matched by a file rule
	Why         string
}

// HasFileRule reports whether any reachable rule of the policy has a file pattern.
func HasFileRule(p *world.PolicySpec) bool {
	if p == nil {
		return false
	}
	for _, f := range p.Files {
		for _, r := range f.Rules {
			for _, pat := range r.Patterns {
				if strings.HasPrefix(pat, "file:") {
					return true
				}
			}
		}
	}
	return false
}

// DecideFiles: every path changed by every non-merge commit the entry newly
// introduces must, if file rules match it, be vouched for by enough of the
// matching rule's principals — the commit's own signature plus the approvals
// recorded for the entry's change.
func (l *Log) DecideFiles(i int) FileDecision {
	p := l.PolicyBefore(i)
	if p == nil {
		return FileDecision{OK: true}
	}
	commits, known := l.NewCommits(i)
	if !known {
		return FileDecision{Unspecified: true, Why: "a commit outside the ground truth is involved"}
	}
	es := l.SignersFor(i)
	trusted := map[string]bool{}
	for _, a := range p.Apps {
		if !a.Trusted {
			continue
		}
		if sg, ok := es.Approvers[a.Name+"\x00signer"]; ok {
			for _, k := range a.Keys {
				if sg[fmt.Sprint(k)] {
					trusted[a.Name] = true
				}
			}
		}
	}
	d := FileDecision{OK: true}
	for _, c := range commits {
		paths := c.Changed
		if len(c.Parents) > 1 {
			// what a merge "changes" is not settled by the statement: unspecified as
			// soon as a protected path exists on either side of it
			sides := []map[string]string{c.Files}
			for _, pid := range c.Parents {
				if pc, ok := l.W.CommitIdx[pid]; ok {
					sides = append(sides, pc.Files)
				}
			}
			for _, files := range sides {
				for path := range files {
					if len(Walk(p, "file:"+path)) > 0 {
						d.Unspecified = true
						d.Why = "a merge commit is among the new commits and protected paths exist"
					}
				}
			}
			continue
		}
		for _, path := range paths {
			vs := Walk(p, "file:"+path)
			if len(vs) == 0 {
				continue
			}
			d.Protected = true
			s := Signers{ObjectKey: c.Signer, EnvelopeKeys: es.EnvelopeKeys, Approvers: es.Approvers}
			met := false
			for _, v := range vs {
				if v.Threshold >= 1 && len(v.Principals) > 0 && Count(v.Principals, s, trusted) >= v.Threshold {
					met = true
					break
				}
			}
			if !met {
				d.OK = false
				d.Why = fmt.Sprintf("commit %.10s (op %d, signer key %d) changes protected path %q and no file rule for it is met (approvals %v)", c.ID, c.OpID, c.Signer, path, keysOf(es.EnvelopeKeys))
				return d
			}
		}
	}
	return d
}
