package props

import (
	"context"
	"encoding/json"
	"fmt"
	"strings"

	"github.com/gittuf/gittuf/internal/attestations"
	"github.com/gittuf/gittuf/internal/policy"
	"github.com/gittuf/gittuf/internal/signerverifier/dsse"
	"github.com/gittuf/gittuf/pkg/githash"
	"github.com/gittuf/gittuf/pkg/gitinterface"
	"github.com/gittuf/gittuf/pkg/rsl"
	"github.com/gittuf/gittuf/verifsim/core"
	"github.com/gittuf/gittuf/verifsim/gitx"
	"github.com/gittuf/gittuf/verifsim/simstore"
	"github.com/gittuf/gittuf/verifsim/world"
)

// The real-git slice of C17. SimStore's Commit mirrors gitinterface's
// read-tip / commit-tree / compare-and-set, but it is a stub: a change to the
// real compare-and-set (pkg/gitinterface/references.go, commit.go) is
// invisible to it. Here two writers use two gitinterface handles on one real
// repository; the pre-exec hook of the git executor is the scheduling point:
// before writer A's k-th git subprocess the whole operation of writer B runs
// (with B's own RSL cache swapped in). One pre-emption per case, k seeded.

var c17gitKinds = []string{"record", "annotate", "stage", "attest"}

func c17IsGitCase(idx uint64) bool { return idx%16 < 4 }
func c17GitSeq(idx uint64) uint64  { return (idx/16)*4 + idx%16 }

func (c17) generateGit(r *core.Rand, tier string, idx uint64) *core.Case {
	seq := c17GitSeq(idx)
	c := &core.Case{Property: "C17", Engine: "git", Config: map[string]int{}, Flags: map[string]bool{}}
	c.Config["prefix"] = int(seq % 3) // entries already on the log: 0 (first entry race), 1, 2
	a := r.Weighted([]int{5, 2, 3, 2})
	bk := r.Weighted([]int{5, 2, 3, 2})
	if c.Config["prefix"] == 0 {
		if a == 1 {
			a = 0
		}
		if bk == 1 {
			bk = 0
		}
	}
	if a == bk && a >= 2 {
		bk = 0 // one policy writer and one approver at most
	}
	c.Config["opA"], c.Config["opB"] = a, bk
	c.Config["preemptAt"] = int(seq / 3 % 16) // swept, not drawn: every pre-emption point of every log state comes round
	c.Flags["sameRef"] = r.Chance(0.2)
	// The window in which only the compare-and-set protects the log (after the
	// commit's own tip read, before its update-ref) lies at a different call
	// index for every operation kind; with the few real-git cases of a quick run
	// the index sweep may not reach it. Every fourth case aims at it directly.
	// (1 = before the update-ref of the log, 2 = before the commit-tree of the log entry)
	if seq%4 == 3 {
		c.Config["preemptOn"] = 1
	} else if seq%4 == 1 {
		c.Config["preemptOn"] = 2
	}
	return c
}

type c17gitWriter struct {
	name   string
	gi     *gitinterface.Repository
	cache  *rsl.VerifCache
	kind   string
	ref    string
	target string
	err    error
	ran    bool
}

func (d c17) executeGit(c *core.Case) (res *core.Result) {
	res = &core.Result{}
	defer func() {
		if r := recover(); r != nil {
			if he, ok := r.(gitx.HarnessError); ok {
				res = &core.Result{HarnessErr: he.Error()}
				return
			}
			panic(r)
		}
	}()
	sc, err := gitx.NewScratch()
	if err != nil {
		res.HarnessErr = err.Error()
		return res
	}
	defer sc.Close()
	gitx.SetupProcessEnv(sc.Dir)
	repo, err := sc.Init("repo", false)
	if err != nil {
		res.HarnessErr = err.Error()
		return res
	}
	mk := func(tag string) string {
		return repo.CommitTree(repo.WriteFiles(map[string]string{tag + ".txt": tag}), nil, tag)
	}
	open := func() *gitinterface.Repository {
		gi, err := gitinterface.LoadRepository(repo.Dir)
		if err != nil {
			panic(gitx.HarnessError{Err: err})
		}
		gi.VerifSetClock(gitx.FixedTime)
		return gi
	}
	setup := open()
	prefixIDs := []string{}
	for i := 0; i < c.Config["prefix"]; i++ {
		ref := fmt.Sprintf("refs/heads/p%d", i)
		t := mk(fmt.Sprintf("prefix-%d", i))
		repo.SetRef(ref, t)
		if err := rsl.NewReferenceEntry(ref, simstore.H(t)).Commit(setup, false); err != nil {
			res.HarnessErr = "prefix entry: " + err.Error()
			return res
		}
		prefixIDs = append(prefixIDs, repo.GetRef(rsl.Ref))
	}
	before, _ := world.WalkRSLGit(repo, rsl.Ref)
	refsBefore := repo.Refs()

	pol := simplePolicy([]int{1, 2, 3}, 1)
	md, err := pol.Build()
	if err != nil {
		res.HarnessErr = err.Error()
		return res
	}
	writers := []*c17gitWriter{
		{name: "A", kind: c17gitKinds[c.Config["opA"]]},
		{name: "B", kind: c17gitKinds[c.Config["opB"]]},
	}
	for i, w := range writers {
		w.gi = open()
		w.cache = rsl.VerifNewCache()
		switch w.kind {
		case "record":
			w.ref = fmt.Sprintf("refs/heads/w%d", i)
			if c.Flags["sameRef"] {
				w.ref = "refs/heads/shared"
			}
			w.target = mk("work-" + w.name)
		case "annotate":
			w.target = prefixIDs[i%len(prefixIDs)]
		case "stage":
			w.ref = policy.PolicyStagingRef
		case "attest":
			w.ref = attestations.Ref
			w.target = mk("approved-" + w.name)
		}
	}
	run := func(w *c17gitWriter) {
		w.ran = true
		switch w.kind {
		case "record":
			w.err = rsl.NewReferenceEntry(w.ref, simstore.H(w.target)).Commit(w.gi, false)
		case "annotate":
			w.err = rsl.NewAnnotationEntry([]githash.Hash{simstore.H(w.target)}, w.name == "A", "note by "+w.name).Commit(w.gi, false)
		case "stage":
			st := &policy.State{Metadata: md}
			w.err = st.Commit(w.gi, "stage by "+w.name, true, false)
		case "attest":
			w.err = func() error {
				atts, err := attestations.LoadCurrentAttestations(w.gi)
				if err != nil {
					return err
				}
				tree := repo.TreeOf(w.target)
				zero := strings.Repeat("0", 40)
				stmt, err := attestations.NewReferenceAuthorizationForCommit("refs/heads/approved", zero, tree)
				if err != nil {
					return err
				}
				env, err := dsse.CreateEnvelope(stmt)
				if err != nil {
					return err
				}
				env, err = dsse.SignEnvelope(context.Background(), env, world.GetKey(1).DSSE())
				if err != nil {
					return err
				}
				if err := atts.SetReferenceAuthorization(w.gi, env, "refs/heads/approved", zero, tree); err != nil {
					return err
				}
				return atts.Commit(w.gi, "approval by "+w.name, true, false)
			}()
		}
	}
	A, B := writers[0], writers[1]
	callsA := [][]string{}
	inB := false
	preemptedAt := -1
	gitinterface.VerifExecHook = func(gitDir string, args []string) error {
		if inB {
			return nil
		}
		hit := len(callsA) == c.Config["preemptAt"]
		if c.Config["preemptOn"] == 1 {
			hit = args[0] == "update-ref" && strings.Contains(strings.Join(args, " "), rsl.Ref)
		}
		if c.Config["preemptOn"] == 2 {
			joined := strings.Join(args, " ")
			hit = args[0] == "commit-tree" && (strings.Contains(joined, "RSL Reference Entry") || strings.Contains(joined, "RSL Annotation Entry"))
		}
		if hit && !B.ran {
			inB = true
			preemptedAt = len(callsA)
			old := rsl.VerifSwapCache(B.cache)
			run(B)
			B.cache = rsl.VerifSwapCache(old)
			inB = false
		}
		callsA = append(callsA, append([]string{}, args...))
		return nil
	}
	oldCache := rsl.VerifSwapCache(A.cache)
	func() {
		defer func() {
			gitinterface.VerifExecHook = nil
			A.cache = rsl.VerifSwapCache(oldCache)
		}()
		run(A)
	}()
	if !B.ran {
		// A needed fewer git calls than the drawn pre-emption point: B runs afterwards (sequential case)
		old := rsl.VerifSwapCache(B.cache)
		run(B)
		B.cache = rsl.VerifSwapCache(old)
	}

	// Attribution: did B complete between A's first read of the log tip and A's last one before its commit?
	firstRead, lastRead := -1, -1
	// The window of the open finding C17-K1 closes at the read inside the
	// *first* attempt to commit the log entry: once that commit object exists
	// the compare-and-set must refuse an overtaken writer, so a writer that
	// still succeeds afterwards (a retry that re-reads the tip, say) is not
	// what K1 describes. The first attempt is the first commit-tree that is
	// followed by an update-ref of the log before the next commit-tree.
	lastCommitTree := len(callsA)
	for i, a := range callsA {
		if a[0] != "commit-tree" {
			continue
		}
		isLog := false
		for _, b := range callsA[i+1:] {
			if b[0] == "commit-tree" {
				break
			}
			if b[0] == "update-ref" && strings.Contains(strings.Join(b, " "), rsl.Ref) {
				isLog = true
				break
			}
		}
		if isLog {
			lastCommitTree = i
			break
		}
	}
	for i, a := range callsA {
		joined := strings.Join(a, " ")
		if i >= lastCommitTree {
			break
		}
		if strings.Contains(joined, rsl.Ref) && (a[0] == "rev-parse" || a[0] == "show-ref" || a[0] == "for-each-ref") {
			if firstRead < 0 {
				firstRead = i
			}
			lastRead = i
		}
	}
	feat := []string{"engine=git"}
	interleaved := preemptedAt >= 0 && preemptedAt > 0 && preemptedAt < len(callsA)
	if preemptedAt > firstRead && firstRead >= 0 && preemptedAt <= lastRead && B.err == nil {
		feat = append(feat, "tip-moved-between-numbering-read-and-commit")
	}
	viol := func(class, detail string, extra ...string) {
		res.Violate("C17", class, fmt.Sprintf("%s [A=%s (%v) pre-empted before its git call #%d of %d by B=%s (%v), %d entries before]", detail, A.kind, errStr(A.err), preemptedAt, len(callsA), B.kind, errStr(B.err), len(before)), 0, append(append([]string{}, feat...), extra...)...)
	}

	after, problem := world.WalkRSLGit(repo, rsl.Ref)
	if problem != "" {
		if strings.Contains(problem, "has number") {
			viol("chain-broken", "after concurrent recording: "+problem, "number-discontinuity")
		} else {
			viol("chain-broken", "after concurrent recording: "+problem)
		}
	}
	// earlier entries are still there, in place
	for i, e := range before {
		if i >= len(after) || after[i].ID != e.ID {
			viol("lost-entry", fmt.Sprintf("entry %s that was on the log before is no longer at position %d", short10(e.ID), i))
			break
		}
	}
	// every acknowledged operation is on the log exactly once, every failed one not at all
	newEntries := []*world.RawEntry{}
	if len(after) >= len(before) {
		newEntries = after[len(before):]
	}
	for _, w := range writers {
		n := 0
		for _, e := range newEntries {
			switch w.kind {
			case "record":
				if e.Kind == "reference" && e.Ref == w.ref && e.Target == w.target {
					n++
				}
			case "annotate":
				if e.Kind == "annotation" && len(e.Targets) == 1 && e.Targets[0] == w.target && e.Skip == (w.name == "A") {
					n++
				}
			case "stage":
				if e.Kind == "reference" && e.Ref == policy.PolicyStagingRef {
					n++
				}
			case "attest":
				if e.Kind == "reference" && e.Ref == attestations.Ref {
					n++
				}
			}
		}
		switch {
		case w.err == nil && n == 0:
			viol("lost-entry", fmt.Sprintf("writer %s (%s) was told its entry is recorded but the log does not hold it", w.name, w.kind), "acknowledged-entry-missing")
		case w.err == nil && n > 1:
			viol("partial-entry", fmt.Sprintf("writer %s (%s) succeeded once but the log holds %d matching entries", w.name, w.kind, n))
		case w.err != nil && n > 0 && !(c.Flags["sameRef"] && A.kind == "record" && B.kind == "record" && A.target == B.target):
			viol("partial-entry", fmt.Sprintf("writer %s (%s) failed (%v) but the log holds %d matching entr(ies)", w.name, w.kind, w.err, n))
		}
	}
	if len(newEntries) > 2 {
		viol("partial-entry", fmt.Sprintf("two operations appended %d entries", len(newEntries)))
	}
	// the staging ref matches its latest entry (or is as before when staging failed)
	for _, w := range writers {
		if w.kind != "stage" && w.kind != "attest" {
			continue
		}
		tip := repo.GetRef(w.ref)
		latest := ""
		for _, e := range after {
			if e.Kind == "reference" && e.Ref == w.ref {
				latest = e.Target
			}
		}
		if tip != latest {
			viol("ref-inconsistent", fmt.Sprintf("%s is %s but its latest log entry records %s (the operation returned %v)", w.ref, short10(tip), short10(latest), errStr(w.err)))
		}
		if w.err != nil && tip != refsBefore[w.ref] {
			viol("ref-inconsistent", fmt.Sprintf("the operation failed (%v) but %s moved", w.err, w.ref))
		}
	}
	// the process-wide caches must not have kept an entry that is not on the log
	for _, w := range writers {
		old := rsl.VerifSwapCache(w.cache)
		latest, lerr := rsl.GetLatestEntry(w.gi)
		w.cache = rsl.VerifSwapCache(old)
		if problem == "" && len(after) > 0 {
			if lerr != nil {
				viol("reader-error", fmt.Sprintf("writer %s reading the tip afterwards fails: %v", w.name, lerr))
			} else if latest.GetID().String() != after[len(after)-1].ID {
				viol("stale-read", fmt.Sprintf("writer %s reads tip %s afterwards, the log tip is %s", w.name, short10(latest.GetID().String()), short10(after[len(after)-1].ID)))
			}
		}
	}
	outc := fmt.Sprintf("A:%s:%v B:%s:%v new:%d", A.kind, A.err == nil, B.kind, B.err == nil, len(newEntries))
	res.Steps = len(callsA)
	res.Digest = core.HashStrings(outc, fmt.Sprint(preemptedAt, len(callsA), len(before)), problem)
	res.StateKey = "git/" + core.HashStrings(outc, fmt.Sprint(preemptedAt, len(before), c.Flags["sameRef"]))
	res.Nontrivial = interleaved
	res.Stat("git_cases", 1)
	res.Stat("probe:git_writer_preempted_mid_operation", boolInt(interleaved))
	res.Stat("probe:git_first_entry_race", boolInt(len(before) == 0 && interleaved))
	res.Stat("probe:git_compare_and_set_refused_a_writer", boolInt((A.err != nil) != (B.err != nil)))
	res.Stat("fault:preemption", boolInt(interleaved))
	b, _ := json.Marshal(callsAShort(callsA))
	res.Sample = map[string]any{"engine": "git", "outcome": outc, "preempted_before_call": preemptedAt, "git_calls_of_A": string(b)}
	return res
}

func errStr(err error) string {
	if err == nil {
		return "ok"
	}
	s := err.Error()
	if len(s) > 90 {
		s = s[:90]
	}
	return s
}

func callsAShort(calls [][]string) []string {
	out := []string{}
	for _, a := range calls {
		s := a[0]
		for _, x := range a[1:] {
			if strings.HasPrefix(x, "refs/") {
				s += " " + x
			}
		}
		out = append(out, s)
	}
	return out
}
