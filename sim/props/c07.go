package props

import (
	"fmt"
	"strings"

	"github.com/gittuf/gittuf/verifsim/core"
	"github.com/gittuf/gittuf/verifsim/model"
	"github.com/gittuf/gittuf/verifsim/world"
)

// C07 — a violation is tolerated only if revoked and repaired as recovery
// requires.
type c07 struct{}

func init() {
	core.Register(c07{})
	core.TierTable["C07"] = map[string]core.TierCfg{"quick": {Runs: 40000, BudgetS: 60}, "thorough": {Runs: 1200000, BudgetS: 1200}}
}

func (c07) ID() string    { return "C07" }
func (c07) Level() string { return "exploration" }
func (c07) Rule() string {
	return "A case is a log over one or two protected references in which every entry is independently valid (pushed by the authorised developer) or violating (pushed by an unauthorised key), revoked or not (skip annotations placed right after, anywhere later, or one annotation covering several entries, by any actor; message-only annotations that revoke nothing may name any entry), and carries one of three trees (so tree-sameness to the last good state arises in every combination), interleaved with unprotected-ref pushes, policy changes that switch who is authorised, and attestation entries. Thorough tier: all patterns (valid/violating x skipped/not x 3 trees) up to length 4 are swept by index, length 5-12 sampled; quick samples. Every third case is instead a policy-world history (thresholds up to 2, approvals, delegations, policy edits) with incidents — violation, revocation, fix, and other operations (policy changes, approvals for the fix and for the next change) recorded while the incident is open. Oracle: the recovery rule as worded, evaluated over ground truth. Distinct = distinct (flag pattern, annotation placement class, interleaving); non-trivial = at least one violating entry and at least one skip annotation."
}
func (c07) Components() map[string]string {
	return map[string]string{"internal/policy verifier (recovery loop)": "real", "pkg/rsl readers": "real", "gitstore.Storer": "stub (SimStore)"}
}
func (c07) Assumptions() []string {
	return []string{
		"only the only-if direction of the statement is a verdict: a history whose violation is not revoked-and-repaired as worded must be rejected; acceptance of correctly recovered histories is measured (probe) but not demanded",
		"unspecified and not compared: the first entry of a reference is the violation; the fix entry itself is unauthorised (that is C01's subject)",
	}
}

type c07Entry struct {
	Viol bool
	Skip bool
	Tree int // 0..2
}

// generateWorld: a policy-world history (thresholds, approvals, delegations, policy edits) with
// incidents — violation, revocation, fix, and operations of other kinds inside the open incident —
// judged by the same recovery rule.
func (c07) generateWorld(r *core.Rand, tier string, idx uint64) *core.Case {
	c := &core.Case{Property: "C07", Engine: "simstore", Config: map[string]int{}, Flags: map[string]bool{"world": true}}
	cfg := drawPWCfg(r, tier)
	cfg.globalRules, cfg.propagation = false, false
	cfg.revoke, cfg.unauth, cfg.approvals = true, true, true
	cfg.maxThr = 2
	cfg.verifyMid = false
	g := &pwGen{r: r, cfg: cfg, b: &opBuilder{}}
	g.generate()
	c.Ops = g.b.ops
	c.Config["nDev"] = cfg.nDev
	return c
}

func (d c07) executeWorld(c *core.Case) *core.Result {
	res := &core.Result{}
	run := runPolicyCase(c, pwKeys(c.Config["nDev"]), nil, []string{mainRef, relRef}, nil)
	if run.Harness != "" {
		res.HarnessErr = run.Harness
		return res
	}
	if run.Panic != "" {
		res.Violate("C07", "panic", run.Panic, 0)
		return res
	}
	vec := []string{}
	incidents := 0
	for _, rec := range run.Recs {
		if modeOf(&rec.Op) != "full" {
			continue
		}
		lg := truncatedLog(run, rec.LogLen)
		exp, why := recoveryExpectation(lg, rec.Op.Ref)
		v := rec.Verdict
		vec = append(vec, fmt.Sprintf("%s=%s/%d", strings.TrimPrefix(rec.Op.Ref, "refs/heads/"), v.Class, exp))
		switch exp {
		case mustReject:
			res.Stat("verdicts_must_reject", 1)
			if v.Class == "accept" {
				res.Violate("C07", "violation-tolerated", fmt.Sprintf("full verification of %s succeeded although %s", rec.Op.Ref, why), rec.Op.ID, "policy-world")
			}
		case mustAccept:
			res.Stat("recovered_histories", 1)
			revoked := false
			for _, p := range lg.PositionsForRef(rec.Op.Ref) {
				if lg.W.Entries[p].Kind == "reference" && lg.Revoked(p) {
					revoked = true
				}
			}
			if revoked {
				incidents++
			}
			if v.Class != "accept" {
				res.Violate("C07", "recovery-rejected", fmt.Sprintf("full verification of %s returned %s (%s) although %s", rec.Op.Ref, v.Class, v.Err, why), rec.Op.ID, "policy-world")
			}
		default:
			res.Stat("verdicts_unspecified", 1)
		}
	}
	pattern := entryPattern(run)
	res.Steps = len(c.Ops)
	res.Digest = core.HashStrings(strings.Join(pattern, ","), strings.Join(vec, ","), refDigest(run.W.St))
	res.StateKey = "world/" + core.HashStrings(strings.Join(pattern, ","), strings.Join(vec, ","))
	res.Nontrivial = incidents > 0
	res.Stat("probe:world_history_recovered_and_accepted", boolInt(incidents > 0))
	res.Sample = map[string]any{"ops": describeOps(c.Ops), "entries": pattern, "verdict/expectation(1=accept,2=reject,0=unspecified)": vec}
	return res
}

func (d c07) Generate(r *core.Rand, tier string, idx uint64) *core.Case {
	if idx%3 == 2 {
		return d.generateWorld(r, tier, idx)
	}
	idx -= (idx + 1) / 3 // the pattern cases keep a gap-free numbering (the thorough tier's sweep walks it)
	c := &core.Case{Property: "C07", Engine: "simstore", Config: map[string]int{}, Flags: map[string]bool{}}
	var pat []c07Entry
	sweep := false
	if tier == "thorough" {
		// lengths 1..4 enumerated: 12 + 144 + 1728 + 20736 = 22620 patterns x 2 annotation placements
		total := uint64(0)
		for L := 1; L <= 4; L++ {
			n := uint64(1)
			for i := 0; i < L; i++ {
				n *= 12
			}
			if idx/2 < total+n {
				k := idx/2 - total
				for i := 0; i < L; i++ {
					d := k % 12
					k /= 12
					pat = append(pat, c07Entry{Viol: d%2 == 1, Skip: (d/2)%2 == 1, Tree: int(d / 4)})
				}
				sweep = true
				c.Config["placement"] = int(idx % 2)
				break
			}
			total += n
		}
	}
	if !sweep {
		L := r.Range(1, 8)
		if tier == "thorough" {
			L = r.Range(5, 12)
		}
		for i := 0; i < L; i++ {
			pat = append(pat, c07Entry{Viol: r.Chance(0.35), Skip: r.Chance(0.4), Tree: r.Intn(3)})
		}
		c.Config["placement"] = 2 + r.Intn(2) // 2: random later position, 3: mix incl. multi-target
	}
	b := &opBuilder{}
	// actors: 0 root, 1 dev (authorised), 2 dev2 (authorised after a policy switch), 3 violator
	pol := simplePolicy([]int{1}, 1)
	pol.Files["targets"].Principals = append(pol.Files["targets"].Principals, world.KeyPrincipal(2))
	b.add(world.Op{Kind: "stage", Actor: 0, Policy: pol})
	b.add(world.Op{Kind: "apply", Actor: 0})
	// three template commits giving three trees (unprotected ref)
	tmpl := []int{}
	for t := 0; t < 3; t++ {
		tmpl = append(tmpl, b.add(world.Op{Kind: "commit", Actor: 1, Ref: "", Base: "root", Files: map[string]string{"f.txt": fmt.Sprintf("tree-%d", t)}, CommitKey: 1}))
	}
	twoRefs := !sweep && r.Chance(0.3)
	authorised := 1
	deauthorised := 0
	withBase := sweep || r.Chance(0.9)
	if withBase {
		b.add(world.Op{Kind: "fix", Actor: 1, Ref: mainRef, TreeOf: tmpl[0], CommitKey: 1, EntryKey: -2})
	}
	type pend struct {
		op int
		at int // emit after this many further entries
	}
	pending := []pend{}
	emitDue := func(force bool) {
		rest := []pend{}
		group := []int{}
		for _, p := range pending {
			if force || p.at <= 0 {
				group = append(group, p.op)
			} else {
				p.at--
				rest = append(rest, p)
			}
		}
		pending = rest
		if len(group) == 0 {
			return
		}
		if c.Config["placement"] == 3 || (c.Config["placement"] == 1 && force) {
			b.add(world.Op{Kind: "annotate", Actor: r.Range(0, 3), Targets: group, Skip: true, Msg: "revoke", EntryKey: -2})
			return
		}
		for _, g := range group {
			b.add(world.Op{Kind: "annotate", Actor: r.Range(0, 3), Targets: []int{g}, Skip: true, Msg: "revoke", EntryKey: -2})
		}
	}
	for i, e := range pat {
		ref := mainRef
		if twoRefs && r.Chance(0.3) {
			ref = relRef
		}
		actor := authorised
		if e.Viol {
			actor = 3
			if deauthorised != 0 && r.Chance(0.5) {
				// a violation by the developer a policy switch has just de-authorised:
				// it verifies only if that policy entry was lost on the way
				actor = deauthorised
			}
		}
		id := b.add(world.Op{Kind: "fix", Actor: actor, Ref: ref, TreeOf: tmpl[e.Tree], CommitKey: actor, EntryKey: -2, N: i})
		if e.Skip {
			switch c.Config["placement"] {
			case 0:
				pending = append(pending, pend{op: id, at: 0})
			case 1:
				pending = append(pending, pend{op: id, at: 1000})
			default:
				pending = append(pending, pend{op: id, at: r.Intn(4)})
			}
		}
		emitDue(false)
		if !sweep && r.Chance(0.15) {
			// a message-only annotation (skip=false) naming this entry: it revokes nothing,
			// whether the entry is also named by a revocation or not
			b.add(world.Op{Kind: "annotate", Actor: r.Range(0, 3), Targets: []int{id}, Skip: false, Msg: "note", EntryKey: -2})
		}
		if !sweep {
			switch r.Intn(8) {
			case 0:
				b.add(push(1, openRef, fileFor(r, i)))
			case 1: // switch who is authorised for main
				np := pol.Clone()
				np.Files["targets"].Version = pol.Files["targets"].Version + 1
				deauthorised = authorised
				if authorised == 1 {
					authorised = 2
				} else {
					authorised = 1
				}
				np.Files["targets"].Rules[0].Principals = []string{world.GetKey(authorised).ID}
				pol = np
				b.add(world.Op{Kind: "stage", Actor: 0, Policy: pol})
				b.add(world.Op{Kind: "apply", Actor: 0})
			case 2:
				b.add(world.Op{Kind: "approve", Actor: 1, Approve: &world.ApproveSpec{Ref: openRef, FromOp: 0, ToOp: tmpl[0], Signers: []int{1}}})
			}
		}
	}
	emitDue(true)
	c.Flags["twoRefs"] = twoRefs
	c.Flags["sweep"] = sweep
	c.Ops = b.ops
	return c
}

// recoveryExpectation evaluates the rule of C07 over ground truth.
func recoveryExpectation(l *model.Log, ref string) (expectation, string) {
	pos := l.PositionsForRef(ref)
	E := l.W.Entries
	tree := func(p int) string {
		if c, ok := l.W.CommitIdx[E[p].Target]; ok {
			return c.Tree
		}
		return "?" + E[p].Target
	}
	i := 0
	for i < len(pos) {
		p := pos[i]
		if E[p].Kind != "reference" {
			return unspecified, "propagation entry in the history"
		}
		if l.PolicyBefore(p) == nil {
			return unspecified, "entry before any policy"
		}
		if l.Decide(p).Authorized {
			i++
			continue
		}
		if !l.Revoked(p) {
			return mustReject, fmt.Sprintf("entry #%d violates policy and is not revoked", p)
		}
		// last valid unskipped entry before the violation
		lastGood := -1
		for j := i - 1; j >= 0; j-- {
			if !l.Revoked(pos[j]) {
				lastGood = pos[j]
				break
			}
		}
		if lastGood < 0 {
			return unspecified, "no earlier unskipped entry (first entry of the reference is the violation)"
		}
		fix := -1
		for k := i + 1; k < len(pos); k++ {
			q := pos[k]
			if !l.Revoked(q) && tree(q) == tree(lastGood) {
				fix = k
				break
			}
		}
		if fix < 0 {
			return mustReject, fmt.Sprintf("entry #%d violates policy, is revoked, but no later unskipped entry restores the tree of the last good entry #%d", p, lastGood)
		}
		for k := i + 1; k < fix; k++ {
			if !l.Revoked(pos[k]) {
				return mustReject, fmt.Sprintf("entry #%d between the violation #%d and the fix #%d is not revoked", pos[k], p, pos[fix])
			}
		}
		if !l.Decide(pos[fix]).Authorized {
			return unspecified, "the fix entry itself is unauthorised (C01)"
		}
		i = fix + 1
	}
	return mustAccept, "every violation is revoked and repaired as recovery requires"
}

func (d c07) Execute(c *core.Case) *core.Result {
	if c.Flags["world"] {
		return d.executeWorld(c)
	}
	res := &core.Result{}
	w := world.NewWithKeys([]int{0, 1, 2, outsiderKey})
	w.Env.RecordEvents = false
	l := &model.Log{W: w}
	defer func() {
		if res.Digest == "" {
			res.Digest = core.HashStrings(refDigest(w.St))
		}
	}()
	for i := range c.Ops {
		op := &c.Ops[i]
		out := w.Exec(op)
		if out.Err == world.ErrSkipped {
			continue
		}
		if out.Panic != nil {
			res.Violate("C07", "panic", fmt.Sprintf("op #%d %s panicked: %v", op.ID, op.Kind, out.Panic), op.ID)
			return res
		}
		if out.Err != nil && (op.Kind == "stage" || op.Kind == "apply") {
			res.HarnessErr = fmt.Sprintf("policy op #%d failed: %v", op.ID, out.Err)
			return res
		}
	}
	pattern := []string{}
	viol, skips := 0, 0
	for i, e := range w.Entries {
		switch {
		case e.Kind == "annotation":
			pattern = append(pattern, fmt.Sprintf("a%d", len(e.Targets)))
			if e.Skip {
				skips++
			}
		case strings.HasPrefix(e.Ref, "refs/gittuf/"):
			pattern = append(pattern, "g")
		default:
			ok := l.Decide(i).Authorized
			if !ok {
				viol++
			}
			t := "?"
			if cm, okc := w.CommitIdx[e.Target]; okc {
				t = cm.Tree[:4]
			}
			pattern = append(pattern, fmt.Sprintf("%s:%v:%v:%s", strings.TrimPrefix(e.Ref, "refs/heads/"), ok, l.Revoked(i), t))
		}
	}
	verdicts := []string{}
	for _, ref := range []string{mainRef, relRef} {
		if len(l.PositionsForRef(ref)) == 0 {
			continue
		}
		exp, why := recoveryExpectation(l, ref)
		w.Actors[0].Proc.Restart()
		op := world.Op{ID: 9000 + len(verdicts), Kind: "verify", Actor: 0, Ref: ref, Mode: "full"}
		out := w.Exec(&op)
		if out.Panic != nil {
			res.Violate("C07", "panic", fmt.Sprintf("verification panicked: %v", out.Panic), op.ID)
			break
		}
		v := w.Verdicts[op.ID]
		verdicts = append(verdicts, fmt.Sprintf("%s=%s/%d", strings.TrimPrefix(ref, "refs/heads/"), v.Class, exp))
		switch exp {
		case unspecified:
			res.Stat("verdicts_unspecified", 1)
		case mustReject:
			res.Stat("verdicts_must_reject", 1)
			if v.Class == "accept" {
				res.Violate("C07", "violation-tolerated", fmt.Sprintf("full verification of %s succeeded although %s; entries %v", ref, why, pattern), op.ID)
			} else if strings.HasPrefix(v.Class, "panic") {
				res.Violate("C07", "panic", fmt.Sprintf("full verification of %s panicked: %q", ref, v.Err), op.ID)
			} else if v.Class != "reject" && v.Class != "notfound" {
				// the statement asks for a failure, not for a particular error: counted, not reported
				res.Stat("rejections_with_an_unclassified_error", 1)
			}
		case mustAccept:
			res.Stat("recovered_histories", 1)
			if v.Class != "accept" {
				res.Stat("probe_only:recovered_but_rejected", 1)
			} else if viol > 0 {
				res.Stat("probe:recovery_accepted", 1)
			}
		}
	}
	res.Steps = len(c.Ops)
	res.Digest = core.HashStrings(strings.Join(pattern, ","), strings.Join(verdicts, ","), refDigest(w.St))
	res.StateKey = core.HashStrings(strings.Join(pattern, ","), strings.Join(verdicts, ","))
	res.Nontrivial = viol >= 1 && skips >= 1
	res.Sample = map[string]any{"ops": describeOps(c.Ops), "entries": pattern, "verdict/expectation(1=accept,2=reject,0=unspecified)": verdicts}
	return res
}
