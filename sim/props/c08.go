package props

import (
	"encoding/json"
	"fmt"
	"strings"

	"github.com/gittuf/gittuf/verifsim/core"
	"github.com/gittuf/gittuf/verifsim/model"
	"github.com/gittuf/gittuf/verifsim/sched"
	"github.com/gittuf/gittuf/verifsim/world"
)

// C08 — verdicts depend only on the log: never on cache, repetition or
// checkpoint.
type c08 struct{}

func init() {
	core.Register(c08{})
	core.TierTable["C08"] = map[string]core.TierCfg{"quick": {Runs: 20000, BudgetS: 75}, "thorough": {Runs: 800000, BudgetS: 1200}}
}

func (c08) ID() string    { return "C08" }
func (c08) Level() string { return "exploration" }
func (c08) Rule() string {
	return "A case is a C01-style seeded history (principals share no keys) in which one actor keeps a persistent cache: it populates the cache at a seeded growth point (or never, or deletes and re-populates it), loses cache commits at seeded points (stale-cache fault: the cache ref is rolled back to an earlier value, as after a crash before the deferred cache commit), restarts, and verifies references in seeded order and modes (full, latest-only, from an entry reached by its own earlier successful verification, and the mergeability prediction for another branch into main), repeating verifications and verifying other references first, while other actors keep growing the log (pushes, approvals, policy edits that revoke keys, revocations). Oracle: for every such verification a twin — a fresh process without any cache on a fork of the same store — must return the same verdict class and tip (from-checkpoint is compared with the twin's full verification); the reference listing before and after may differ only in the cache reference. Distinct = distinct (history pattern, cache action sequence, verdict vector); non-trivial = a cache existed and was at least 2 entries older than the log at some verification."
}
func (c08) Components() map[string]string {
	return map[string]string{"internal/cache": "real", "internal/policy (cacheSearcher, verifier)": "real", "pkg/rsl (process-wide cache)": "real, one instance per simulated process", "gitstore.Storer": "stub (SimStore; refs/local/* namespaced per process)"}
}
func (c08) Assumptions() []string {
	return []string{"the twin's verdict is the reference: only equality is judged here, correctness of the verdict itself is C01's subject", "error classes are compared, not messages"}
}

func (c08) Generate(r *core.Rand, tier string, idx uint64) *core.Case {
	c := &core.Case{Property: "C08", Engine: "simstore", Config: map[string]int{}, Flags: map[string]bool{}}
	cfg := drawPWCfg(r, tier)
	cfg.globalRules = false
	cfg.propagation = false
	cfg.verifyMid = false
	cfg.policyEdits = r.Chance(0.8)
	cfg.unauth = r.Chance(0.7)
	g := &pwGen{r: r, cfg: cfg, b: &opBuilder{}}
	g.generate()
	if r.Chance(0.3) && len(g.b.ops) > 4 {
		// an invalid policy successor (rule file forged by an outsider who authorises itself) is written
		// straight onto the policy ref somewhere in the history, followed by the outsider's push
		bad := g.pol.Clone()
		bad.Files["targets"].Version += 5
		bad.Files["targets"].Rules[0].Principals = []string{world.GetKey(outsiderKey).ID}
		bad.Files["targets"].Rules[0].Threshold = 1
		bad.Files["targets"].Principals = append(bad.Files["targets"].Principals, world.KeyPrincipal(outsiderKey))
		bad.Files["targets"].Signers = []int{outsiderKey}
		delete(bad.Files, "protect-main")
		delete(bad.Files, "main-delegates")
		at := r.Range(3, len(g.b.ops))
		ops := append([]world.Op{}, g.b.ops[:at]...)
		n0 := len(g.b.ops)
		ops = append(ops, world.Op{ID: n0 + 1, Kind: "byzPolicy", Actor: cfg.nDev + 1, Policy: bad, EntryKey: -2},
			world.Op{ID: n0 + 2, Kind: "push", Actor: cfg.nDev + 1, Ref: mainRef, Files: fileFor(r, 777), CommitKey: outsiderKey, EntryKey: -2})
		ops = append(ops, g.b.ops[at:]...)
		g.b.ops = ops
		c.Flags["invalidPolicyInHistory"] = true
	}
	// weave the cache actor's operations into the history
	cacheActor := cfg.nDev + 2 // last actor (owns key outsiderKey+1)
	ops := []world.Op{}
	populated := false
	id := len(g.b.ops) + 2
	add := func(op world.Op) {
		id++
		op.ID = id
		op.Actor = cacheActor
		ops = append(ops, op)
	}
	refs := []string{mainRef, mainRef, relRef, openRef, main2Ref}
	modes := []string{"full", "latest", "fromCheckpoint", "full"}
	for i, op := range g.b.ops {
		ops = append(ops, op)
		if i < 2 {
			continue
		}
		if !populated && r.Chance(0.35) {
			add(world.Op{Kind: "cachePopulate"})
			populated = true
			continue
		}
		if r.Chance(0.35) {
			n := r.Range(1, 3)
			for j := 0; j < n; j++ {
				if r.Chance(0.15) {
					// the mergeability prediction reads the latest policy and approvals through the same cache
					add(world.Op{Kind: "verify", Ref: mainRef, Mode: "mergeable", Feature: []string{relRef, openRef}[r.Intn(2)]})
					continue
				}
				add(world.Op{Kind: "verify", Ref: refs[r.Intn(len(refs))], Mode: modes[r.Intn(len(modes))]})
			}
		}
		if populated && r.Chance(0.12) {
			add(world.Op{Kind: "staleCache"})
		}
		if r.Chance(0.08) {
			add(world.Op{Kind: "restart"})
		}
		if populated && r.Chance(0.04) {
			add(world.Op{Kind: "cacheDelete"})
			populated = false
		}
	}
	// final round: other refs first, same ref twice, every mode
	for _, ref := range []string{main2Ref, openRef, relRef, mainRef, mainRef} {
		for _, m := range []string{"latest", "full", "fromCheckpoint"} {
			add(world.Op{Kind: "verify", Ref: ref, Mode: m})
		}
	}
	add(world.Op{Kind: "verify", Ref: mainRef, Mode: "mergeable", Feature: relRef})
	add(world.Op{Kind: "verify", Ref: mainRef, Mode: "mergeable", Feature: openRef})
	c.Ops = ops
	c.Config["nDev"] = cfg.nDev
	c.Config["cacheActor"] = cacheActor
	return c
}

// cachedLastVerified reads, from the persistent cache commit cacheTip, the entry the cache
// remembers as last verified for ref ("" if none). Used only to attribute a verdict difference
// to the known retroactive-revocation finding.
func cachedLastVerified(w *world.World, cacheTip, ref string) string {
	if cacheTip == "" {
		return ""
	}
	cm, err := w.St.CommitInfo(cacheTip)
	if err != nil {
		return ""
	}
	files, err := w.St.AllFiles(cm.Tree)
	if err != nil {
		return ""
	}
	blob, err := w.St.ReadBlob(files["persistentCache"])
	if err != nil {
		return ""
	}
	var pc struct {
		LastVerifiedEntryForRef map[string]struct {
			EntryID string `json:"entryID"`
		} `json:"lastVerifiedEntryForRef"`
	}
	if json.Unmarshal(blob, &pc) != nil {
		return ""
	}
	return pc.LastVerifiedEntryForRef[ref].EntryID
}

func refsExceptCache(w *world.World) string {
	parts := []string{}
	for _, kv := range w.St.RefsSorted() {
		if strings.HasPrefix(kv[0], "refs/local/") {
			continue
		}
		parts = append(parts, kv[0]+"="+kv[1])
	}
	return strings.Join(parts, ";")
}

func (d c08) Execute(c *core.Case) *core.Result {
	res := &core.Result{}
	w := world.NewWithKeys(pwKeys(c.Config["nDev"]))
	w.Env.RecordEvents = false
	l := &model.Log{W: w}
	ca := c.Config["cacheActor"]
	if ca >= len(w.Actors) {
		res.StateKey = "bad-actor"
		return res
	}
	cacheRef := "refs/local/" + w.Actors[ca].Name + "/gittuf/persistent-cache"
	type cacheVal struct {
		id     string
		logLen int
		walked map[int]bool
	}
	// positions of policy entries beyond the cache point that an accepting verification of the caching
	// actor walked over with the cache enabled and whose cache commit is the current cache ref: the walk
	// records each of them in the index, so a later lookup cannot answer with an older state in their stead
	walked := map[int]bool{}
	copyWalked := func() map[int]bool {
		m := map[int]bool{}
		for k := range walked {
			m[k] = true
		}
		return m
	}
	cacheHistory := []cacheVal{} // earlier values of the cache ref (for the stale-cache fault)
	cacheLogLen := -1            // log length when the cache ref last changed
	checkpoint := map[string]int{}
	checkpointLen := map[string]int{} // log length when the checkpoint was reached
	vec := []string{}
	actions := []string{}
	maxLag := 0
	defer func() {
		if res.Digest == "" {
			res.Digest = core.HashStrings(refDigest(w.St), strings.Join(actions, ","), strings.Join(vec, ","))
		}
	}()
	twin := func(op *world.Op) world.Verdict {
		fork := w.St.Fork()
		env := sched.NewEnv()
		env.RecordEvents = false
		p := env.NewProc("twin")
		h := &sched.Handle{St: fork, P: p, Name: "twin", LocalNS: "twin"}
		var v world.Verdict
		o := p.RunOp(0, func() error {
			v = w.Verify(h, op)
			return nil
		})
		if o.Panic != nil {
			return world.Verdict{Class: "panic", Err: fmt.Sprint(o.Panic)}
		}
		return v
	}
	for i := range c.Ops {
		op := c.Ops[i]
		cacheOp := op.Kind == "staleCache" || op.Kind == "cachePopulate" || op.Kind == "cacheDelete" || op.Kind == "verify"
		if op.Actor != ca || !cacheOp {
			out := w.Exec(&op)
			if out.Panic != nil {
				res.Violate("C08", "panic", fmt.Sprintf("op #%d %s panicked: %v", op.ID, op.Kind, out.Panic), op.ID)
				return res
			}
			if out.Err != nil && out.Err != world.ErrSkipped && (op.Kind == "stage" || op.Kind == "apply") && !c.Flags["invalidPolicyInHistory"] {
				res.HarnessErr = fmt.Sprintf("policy op #%d failed: %v", op.ID, out.Err)
				return res
			}
			continue
		}
		cur, _ := w.St.GetRef(cacheRef)
		pendingWalk := [2]int{0, 0}
		switch op.Kind {
		case "staleCache":
			// the cache commit of the last verification is lost (crash before
			// the deferred commit): the ref goes back to an earlier value
			if len(cacheHistory) > 0 {
				old := cacheHistory[core.NewRand(c.Seed^uint64(op.ID)).Intn(len(cacheHistory))]
				if old.id != cur {
					w.St.SetRef(cacheRef, old.id)
					cacheLogLen = old.logLen
					walked = old.walked
					res.Stat("fault:stale-cache", 1)
					actions = append(actions, "stale")
				}
			}
			continue
		case "cachePopulate", "cacheDelete":
			out := w.Exec(&op)
			if out.Panic != nil {
				res.Violate("C08", "panic", fmt.Sprintf("%s panicked: %v", op.Kind, out.Panic), op.ID)
				return res
			}
			actions = append(actions, op.Kind)
		case "verify":
			vop := op
			fromCP := false
			if op.Mode == "fromCheckpoint" {
				cp, ok := checkpoint[op.Ref]
				if !ok {
					vop.Mode = "full"
				} else {
					vop.Mode = "from"
					vop.FromEntry = cp
					fromCP = true
				}
			}
			before := refsExceptCache(w)
			if cur != "" && cacheLogLen >= 0 && len(w.Entries)-cacheLogLen > maxLag {
				maxLag = len(w.Entries) - cacheLogLen
			}
			out := w.Exec(&vop)
			if out.Panic != nil {
				res.Violate("C08", "panic", fmt.Sprintf("verification panicked: %v", out.Panic), op.ID)
				return res
			}
			v := w.Verdicts[vop.ID]
			if v.Class == "skipped" {
				continue
			}
			after := refsExceptCache(w)
			feat := []string{"mode=" + vop.Mode}
			if cur != "" {
				feat = append(feat, "cache-present")
				if cacheLogLen >= 0 && cacheLogLen < len(w.Entries) {
					feat = append(feat, "cache-older-than-log")
				}
			}
			if fromCP {
				feat = append(feat, "from-own-checkpoint")
			}
			if before != after {
				res.Violate("C08", "side-effect-ref", fmt.Sprintf("%s verification of %s changed references other than the cache reference", vop.Mode, vop.Ref), op.ID, feat...)
				return res
			}
			tv := twin(&vop)
			if fromCP {
				// first: does verifying from the checkpoint agree with verifying the whole log (both cache-less)?
				full := world.Op{Kind: "verify", Ref: vop.Ref, Mode: "full"}
				tf := twin(&full)
				res.Stat("checkpoint_comparisons", 1)
				if tv.Class != tf.Class || (tv.Class == "accept" && tv.Tip != tf.Tip) {
					f2 := []string{"from-own-checkpoint"}
					if e, ok := w.ByOp[vop.FromEntry]; ok {
						p := posOf(w, e.ID)
						if p >= 0 && !l.Decide(p).Authorized && recoveryFixes(l, vop.Ref, 0)[p] {
							f2 = append(f2, "checkpoint-is-unauthorised-recovery-fix")
						}
						// an annotation recorded after the checkpoint was reached revokes an entry before it
						for j := checkpointLen[vop.Ref]; j < len(w.Entries); j++ {
							a := w.Entries[j]
							if a.Kind != "annotation" || !a.Skip {
								continue
							}
							for _, t := range a.Targets {
								if q := posOf(w, t); q >= 0 && q <= p {
									f2 = append(f2, "entry-before-checkpoint-revoked-afterwards")
								}
							}
						}
					}
					res.Violate("C08", "verdict-depends-on-checkpoint", fmt.Sprintf("verifying %s onward from the entry its earlier successful verification reached returns %s (%s); verifying the whole log returns %s (%s)", vop.Ref, tv.Class, tv.Err, tf.Class, tf.Err), op.ID, f2...)
					return res
				}
			}
			vec = append(vec, v.Class+"/"+tv.Class)
			actions = append(actions, "verify-"+vop.Mode)
			res.Stat("twin_comparisons", 1)
			if v.Class != tv.Class || (v.Class == "accept" && v.Tip != tv.Tip) {
				class := "verdict-depends-on-cache"
				if cur == "" {
					class = "verdict-depends-on-order"
				}
				if fromCP && cur == "" {
					class = "verdict-depends-on-checkpoint"
				}
				// attribution: does the policy the twin used differ from what a stale cache knows?
				if pos := l.PositionsForRef(vop.Ref); len(pos) > 0 && cacheLogLen >= 0 {
					last := pos[len(pos)-1]
					// ... or the stale index hides a policy state that does not verify (the cache-less run fails on it)
					byz := map[int]bool{}
					for _, o := range c.Ops {
						if o.Kind == "byzPolicy" {
							byz[o.ID] = true
						}
					}
					for j := cacheLogLen; j < len(w.Entries); j++ {
						if w.Entries[j].Ref == policyRef && byz[w.Entries[j].OpID] {
							feat = append(feat, "stale-policy-answer-explains")
							break
						}
					}
					if vop.Mode == "mergeable" {
						last = len(w.Entries) // the prediction uses the latest policy and approvals, wherever they are
					}
					for j := cacheLogLen; j < last && j < len(w.Entries); j++ {
						if w.Entries[j].Ref == policyRef {
							feat = append(feat, "policy-entry-after-cache-point")
							break
						}
					}
					for j := cacheLogLen; j < last && j < len(w.Entries); j++ {
						if w.Entries[j].Ref == attRef {
							feat = append(feat, "attestation-entry-after-cache-point")
							break
						}
					}
					// can a stale answer explain the difference at all? Some entry of the reference must be
					// judged differently under the policy (approvals) the cache knew at its cache point than
					// under the ones really in force before it
					for _, p := range pos {
						if w.Entries[p].Kind != "reference" {
							continue
						}
						// an older state at q cannot be the index's answer for p when a policy entry
						// between them is known to be in the index
						walkedSince := func(q int) bool {
							for x := q + 1; x < p; x++ {
								if walked[x] {
									return true
								}
							}
							return false
						}
						truth := l.Decide(p).Authorized
						if tp := l.PolicyBefore(p); tp != nil && cacheLogLen <= p {
							// the stale index is complete up to the cache point and has, beyond it, only what later
							// verification walks happened to insert: a lookup may return ANY earlier state instead
							// of one recorded after the cache point
							for q := 0; q < p; q++ {
								e := w.Entries[q]
								if e.Kind != "reference" {
									continue
								}
								if e.Ref == policyRef && e.Policy != nil && e.Policy != tp && l.PolicyBefore(p) != e.Policy && l.DecideUnder(p, e.Policy, l.AttBefore(p)).Authorized != truth && !walkedSince(q) {
									feat = append(feat, "stale-policy-answer-explains")
								}
								if e.Ref == attRef && l.DecideUnder(p, tp, e.Att).Authorized != truth {
									feat = append(feat, "stale-approvals-answer-explains")
								}
							}
							if l.PolicyAsOf(cacheLogLen) == nil && truth {
								feat = append(feat, "stale-policy-answer-explains") // the index knows no policy at all: the lookup fails
							}
							if l.DecideUnder(p, tp, nil).Authorized != truth {
								feat = append(feat, "stale-approvals-answer-explains") // no attestation state known at all
							}
						}
					}
					if vop.Mode == "mergeable" {
						// the prediction reads the latest policy and approvals: any later entry can change it
						feat = append(feat, "stale-policy-answer-explains", "stale-approvals-answer-explains")
					}
				}
				// attribution: the cache remembers the entry the actor's last successful full
				// verification reached and resumes there; was an entry at or before it revoked since?
				// (a failing verification stores its progress too, so the point is read from the cache
				// content the run started with — for attribution only, never as an oracle)
				if lv := cachedLastVerified(w, cur, vop.Ref); lv != "" && vop.Mode == "full" {
					p := posOf(w, lv)
					for j := p + 1; j < len(w.Entries) && p >= 0; j++ {
						a := w.Entries[j]
						if a.Kind != "annotation" || !a.Skip {
							continue
						}
						for _, t := range a.Targets {
							if q := posOf(w, t); q >= 0 && q <= p && w.Entries[q].Ref == vop.Ref {
								feat = append(feat, "entry-before-cached-last-verified-revoked-afterwards")
							}
						}
					}
				} else if cp, ok := checkpoint[vop.Ref]; ok && cur != "" && vop.Mode == "full" {
					if e, ok := w.ByOp[cp]; ok {
						p := posOf(w, e.ID)
						for j := checkpointLen[vop.Ref]; j < len(w.Entries) && p >= 0; j++ {
							a := w.Entries[j]
							if a.Kind != "annotation" || !a.Skip {
								continue
							}
							for _, t := range a.Targets {
								if q := posOf(w, t); q >= 0 && q <= p && w.Entries[q].Ref == vop.Ref {
									feat = append(feat, "entry-before-cached-last-verified-revoked-afterwards")
								}
							}
						}
					}
				}
				res.Violate("C08", class, fmt.Sprintf("%s verification of %s by the caching actor returned %s (tip %s, %s); a cache-less fresh process on the same log returns %s (tip %s, %s) [cache ref %s, index complete up to log length %d, log length now %d]", vop.Mode, vop.Ref, v.Class, short10(v.Tip), v.Err, tv.Class, short10(tv.Tip), tv.Err, short10(cur), cacheLogLen, len(w.Entries)), op.ID, feat...)
				return res
			}
			if v.Class == "accept" && (vop.Mode == "full" || vop.Mode == "from") && cur != "" {
				if pos := l.PositionsForRef(vop.Ref); len(pos) > 0 && w.Entries[pos[len(pos)-1]].Kind == "reference" {
					start := -1
					if vop.Mode == "from" {
						if e, ok := w.ByOp[vop.FromEntry]; ok {
							start = posOf(w, e.ID)
						}
					} else if lv := cachedLastVerified(w, cur, vop.Ref); lv != "" {
						start = posOf(w, lv)
					} else {
						start = pos[0]
					}
					if now, _ := w.St.GetRef(cacheRef); now != cur && now != "" && start >= 0 {
						pendingWalk = [2]int{start, pos[len(pos)-1]}
					}
				}
			}
			if v.Class == "accept" && (vop.Mode == "full" || vop.Mode == "from") {
				if pos := l.PositionsForRef(vop.Ref); len(pos) > 0 {
					last := w.Entries[pos[len(pos)-1]]
					if last.Kind == "reference" {
						checkpoint[vop.Ref] = last.OpID
						checkpointLen[vop.Ref] = len(w.Entries)
					}
				}
			}
		}
		if now, _ := w.St.GetRef(cacheRef); now != cur {
			if cur != "" {
				cacheHistory = append(cacheHistory, cacheVal{cur, cacheLogLen, copyWalked()})
			}
			if op.Kind == "cachePopulate" || now == "" {
				walked = map[int]bool{}
			}
			if pendingWalk[1] > pendingWalk[0] {
				walked = copyWalked()
				for x := pendingWalk[0] + 1; x < pendingWalk[1]; x++ {
					if e := w.Entries[x]; e.Kind == "reference" && e.Ref == policyRef && e.Policy != nil && !l.Revoked(x) {
						walked[x] = true
					}
				}
			}
			// only a (re)population scans the whole log; a verification rewrites the cache
			// without making its policy/attestation index complete for entries it did not walk
			if op.Kind == "cachePopulate" || cacheLogLen < 0 {
				cacheLogLen = len(w.Entries)
			}
			if now == "" {
				cacheLogLen = -1
			}
		}
	}
	pattern := []string{}
	for i, e := range w.Entries {
		if e.Kind == "annotation" || strings.HasPrefix(e.Ref, "refs/gittuf/") {
			pattern = append(pattern, e.Kind[:1]+strings.TrimPrefix(e.Ref, "refs/gittuf/"))
			continue
		}
		dd := l.Decide(i)
		pattern = append(pattern, fmt.Sprintf("%s:%v:%v", strings.TrimPrefix(e.Ref, "refs/heads/"), dd.Authorized, l.Revoked(i)))
	}
	res.Steps = len(c.Ops)
	res.Digest = core.HashStrings(strings.Join(pattern, ","), strings.Join(actions, ","), strings.Join(vec, ","))
	res.StateKey = res.Digest
	res.Nontrivial = maxLag >= 2
	res.Stat("probe:cache_older_than_log_at_verification", boolInt(maxLag >= 1))
	res.Stat("probe:checkpoint_verification", boolInt(strings.Contains(strings.Join(actions, ","), "verify-from")))
	res.Sample = map[string]any{"ops": describeOps(c.Ops), "entries": pattern, "cache_actions": actions, "verdict(cached)/verdict(twin)": vec}
	return res
}
