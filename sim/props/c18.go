package props

import (
	"fmt"
	"os"
	"sort"
	"strings"

	"github.com/gittuf/gittuf/internal/propagation"
	"github.com/gittuf/gittuf/internal/tuf"
	tufv02 "github.com/gittuf/gittuf/internal/tuf/v02"
	"github.com/gittuf/gittuf/pkg/githash"
	"github.com/gittuf/gittuf/pkg/gitinterface"
	"github.com/gittuf/gittuf/pkg/rsl"
	"github.com/gittuf/gittuf/verifsim/core"
	"github.com/gittuf/gittuf/verifsim/gitx"
	"github.com/gittuf/gittuf/verifsim/simstore"
	"github.com/gittuf/gittuf/verifsim/world"
)

// C18 — propagation copies exactly the upstream subtree and is idempotent.
// Real git: upstream and downstream repositories on tmpfs, the real
// propagation / gitinterface code, ground truth by NUL-delimited plumbing.
type c18 struct{}

func init() {
	core.Register(c18{})
	core.TierTable["C18"] = map[string]core.TierCfg{"quick": {Runs: 600, BudgetS: 90}, "thorough": {Runs: 40000, BudgetS: 1500}}
}

func (c18) ID() string    { return "C18" }
func (c18) Level() string { return "exploration" }
func (c18) Rule() string {
	return "A case is an upstream and a downstream git repository with seeded trees (nested directories, names with space, tab, quote, backslash, non-ASCII and glob characters, names that are prefixes of one another and of the downstream path), 1-2 propagation directives in either order (with or without upstream path — incl. the 'metadata' form gittuf generates for controllers —, downstream path with or without trailing slash; the second copies the whole upstream tree or another upstream subtree to its own downstream path), and a seeded schedule of steps: propagate (repeated 1-4 times), upstream records a new state (changing everything, only paths outside, or only paths inside the first directive's upstream path, so that one directive can be up to date while the other is stale), upstream revokes its latest entry, downstream gets an unrelated commit. After every propagate step the downstream tree and log are read back with `ls-tree -z` / `cat-file` and compared with the model: downstream path replaced by exactly the upstream's latest unskipped recorded subtree, every other path byte-identical, a propagation entry naming the upstream location and entry, and no commit and no entry when the content already matches. Controller scenario (one case in eight): a controller repository and a network repository that names it in its root; nobody writes a directive — gittuf synthesises it (controller policy ref, upstream path metadata, downstream path gittuf-controller/<name>-<base64 location> in the policy ref) inside PropagateChangesFromUpstreamRepositories, which clones the controller; steps: propagate, the controller publishes a new policy state, the network repository edits its own policy; same oracle on the policy ref's tree and the log. Distinct = distinct (tree-name classes, directive shape, step sequence, outcome vector); non-trivial = at least two propagate steps ran and the upstream changed between two of them or an odd name was present."
}
func (c18) Components() map[string]string {
	return map[string]string{"internal/propagation": "real", "pkg/gitinterface (tree.go, commit.go, references.go)": "real", "pkg/rsl": "real", "git 2.39 + tmpfs repositories": "real", "ground-truth reader": "harness (ls-tree -z, cat-file; not gitinterface's parsers)"}
}
func (c18) Assumptions() []string {
	return []string{"upstream and downstream are local repositories (no network transport)", "ordinary cases invoke internal/propagation with explicit directives; the policy-driven wrapper (PropagateChangesFromUpstreamRepositories, which clones the upstream and synthesises controller directives) runs in the controller scenario"}
}

var oddNames = []string{"a", "b", "dir/c", "sp ace", " lead", "trail ", "dir/\tt", "dir/sp ace.txt", "tab\tname", "qu\"ote", "back\\slash", "ünï.txt", "日本/語", "st*r", "q?m", "[br]acket", "vendorx", "vendor-extra/x", "metadata/root.json", "metadata/targets.json", "sub/inner/deep.txt", "sub/f"}
var plainNames = []string{"a", "b", "dir/c", "metadata/root.json", "metadata/targets.json", "sub/inner/deep.txt", "sub/f", "vendorx", "vendor-extra/x"}

func (d c18) Generate(r *core.Rand, tier string, idx uint64) *core.Case {
	if c18IsControllerCase(idx) {
		return d.generateController(r, tier, idx)
	}
	c := &core.Case{Property: "C18", Engine: "git", Config: map[string]int{}, Flags: map[string]bool{}, Strs: map[string]string{}}
	c.Flags["odd"] = r.Chance(0.5)
	c.Flags["modes"] = r.Chance(0.3) // some files are executables or symbolic links
	c.Config["upPath"] = r.Intn(3)   // 0 none, 1 "sub", 2 "metadata"
	c.Config["downPath"] = r.Intn(4) // vendor | vendor/ | deps/up | deps/up/
	c.Config["second"] = r.Intn(3)   // 0: one directive; 1: second directive copying the whole upstream tree; 2: second directive copying another upstream subtree
	c.Config["order"] = r.Intn(2)    // 1: the second directive is listed first
	n := r.Range(1, 4)
	if tier == "thorough" {
		n = r.Range(2, 7)
	}
	b := &opBuilder{}
	upModes := []string{"all", "outside-first-upstream-path", "inside-first-upstream-path"}
	if r.Chance(0.5) {
		// the shape that tells directives apart: propagate, change part of the upstream, propagate again
		b.add(world.Op{Kind: "propagate", N: 1})
		b.add(world.Op{Kind: "upstreamCommit", N: r.Intn(1000), Mode: upModes[1+r.Intn(2)]})
		n--
	}
	for i := 0; i < n; i++ {
		switch r.Weighted([]int{6, 3, 1, 2}) {
		case 0:
			b.add(world.Op{Kind: "propagate", N: r.Range(1, 2)})
		case 1:
			// Mode: what the new upstream state changes relative to the old one
			b.add(world.Op{Kind: "upstreamCommit", N: r.Intn(1000), Mode: upModes[r.Intn(3)]})
		case 2:
			b.add(world.Op{Kind: "upstreamSkipLatest"})
		case 3:
			b.add(world.Op{Kind: "downstreamCommit", N: r.Intn(1000)})
		}
	}
	b.add(world.Op{Kind: "propagate", N: 2})
	c.Ops = b.ops
	return c
}

// fileModes: when set, pickFiles makes some files executables or symbolic links.
var fileModes bool

func pickFiles(r *core.Rand, names []string, must []string, salt int) map[string]string {
	out := map[string]string{}
	for _, m := range must {
		out[m] = fmt.Sprintf("must-%s-%d", m, salt)
	}
	n := r.Range(2, 6)
	for i := 0; i < n; i++ {
		nm := names[r.Intn(len(names))]
		// a name cannot be both file and directory
		conflict := false
		for ex := range out {
			if strings.HasPrefix(ex, nm+"/") || strings.HasPrefix(nm, ex+"/") {
				conflict = true
			}
		}
		if !conflict {
			out[nm] = fmt.Sprintf("c-%d-%d", salt, r.Intn(50))
			if fileModes {
				switch r.Intn(5) {
				case 0:
					out[nm] = gitx.ExecPrefix + out[nm]
				case 1:
					out[nm] = gitx.LinkPrefix + "../target-" + fmt.Sprint(r.Intn(9))
				}
			}
		}
	}
	return out
}

func (d c18) Execute(c *core.Case) (res *core.Result) {
	if c.Flags["controller"] {
		return d.executeController(c)
	}
	res = &core.Result{}
	defer func() {
		if r := recover(); r != nil {
			if he, ok := r.(gitx.HarnessError); ok {
				res = &core.Result{HarnessErr: he.Error()}
				return
			}
			panic(r)
		}
	}()
	sc, err := gitx.NewScratch()
	if err != nil {
		res.HarnessErr = err.Error()
		return res
	}
	defer sc.Close()
	gitx.SetupProcessEnv(sc.Dir)
	r := core.NewRand(c.Seed ^ 0xC18)
	fileModes = c.Flags["modes"]
	defer func() { fileModes = false }()
	names := plainNames
	if c.Flags["odd"] {
		names = oddNames
	}
	up, err := sc.Init("upstream", false)
	if err != nil {
		res.HarnessErr = err.Error()
		return res
	}
	down, err := sc.Init("downstream", false)
	if err != nil {
		res.HarnessErr = err.Error()
		return res
	}
	upPath := []string{"", "sub", "metadata"}[c.Config["upPath"]]
	downPath := []string{"vendor", "vendor/", "deps/up", "deps/up/"}[c.Config["downPath"]]
	downClean := strings.TrimSuffix(downPath, "/")
	upRef, downRef := "refs/heads/main", "refs/heads/main"
	must := []string{}
	if upPath == "sub" {
		must = []string{"sub/f"}
	} else if upPath == "metadata" {
		must = []string{"metadata/root.json"}
	}
	upPath2 := "metadata"
	if upPath == "metadata" {
		upPath2 = "sub"
	}
	if c.Config["second"] == 2 {
		must = append(must, map[string]string{"sub": "sub/f", "metadata": "metadata/root.json"}[upPath2])
	}
	// upstream history
	upFiles := pickFiles(r, names, must, 0)
	upTip := up.CommitTree(up.WriteFiles(upFiles), nil, "up0")
	up.SetRef(upRef, upTip)
	upGI, err := gitinterface.LoadRepository(up.Dir)
	if err != nil {
		res.HarnessErr = err.Error()
		return res
	}
	upGI.VerifSetClock(gitx.FixedTime)
	recordUp := func() {
		if err := rsl.NewReferenceEntry(upRef, simstore.H(upTip)).Commit(upGI, false); err != nil {
			panic(gitx.HarnessError{Err: fmt.Errorf("recording upstream entry: %w", err)})
		}
	}
	if r.Chance(0.85) {
		recordUp()
	}
	// downstream
	downFiles := pickFiles(r, names, nil, 100)
	if r.Chance(0.4) {
		downFiles[downClean+"/stale.txt"] = "stale content under the downstream path"
	}
	for k := range downFiles { // the downstream path must be a directory
		if k == downClean || strings.HasPrefix(downClean, k+"/") {
			delete(downFiles, k)
		}
	}
	downTip := down.CommitTree(down.WriteFiles(downFiles), nil, "down0")
	down.SetRef(downRef, downTip)
	downGI, err := gitinterface.LoadRepository(down.Dir)
	if err != nil {
		res.HarnessErr = err.Error()
		return res
	}
	downGI.VerifSetClock(gitx.FixedTime)
	location := "file://" + up.Dir
	directives := []tuf.PropagationDirective{tufv02.NewPropagationDirective("d1", location, upRef, upPath, downRef, downPath)}
	type dspec struct{ upPath, downClean string }
	dspecs := []dspec{{upPath, downClean}}
	switch c.Config["second"] {
	case 1:
		directives = append(directives, tufv02.NewPropagationDirective("d2", location, upRef, "", downRef, "third_party/whole"))
		dspecs = append(dspecs, dspec{"", "third_party/whole"})
	case 2:
		directives = append(directives, tufv02.NewPropagationDirective("d2", location, upRef, upPath2, downRef, "third_party/part/"))
		dspecs = append(dspecs, dspec{upPath2, "third_party/part"})
	}
	if len(directives) == 2 && c.Config["order"] == 1 {
		directives[0], directives[1] = directives[1], directives[0]
		dspecs[0], dspecs[1] = dspecs[1], dspecs[0]
	}
	oddPresent := false
	for k := range upFiles {
		if strings.ContainsAny(k, " \t\"\\*?[") || k != strings.ToValidUTF8(k, "") || len(k) != len([]rune(k)) {
			oddPresent = true
		}
	}
	for k := range downFiles {
		if strings.ContainsAny(k, " \t\"\\*?[") || len(k) != len([]rune(k)) {
			oddPresent = true
		}
	}
	outcomes := []string{}
	modeBlind, modeFindings := false, 0
	propagations, upChanges := 0, 0
	changedBetween := false
	var lastPropAfterChange bool
	viol := func(class, detail string, feats ...string) {
		f := []string{}
		if upPath != "" {
			f = append(f, "upstream-path-set")
		}
		if oddPresent {
			f = append(f, "odd-path-names-present")
		}
		f = append(f, feats...)
		res.Violate("C18", class, detail, 0, f...)
	}
	subtreeOf := func(files map[string]string, p string) map[string]string {
		if p == "" {
			return files
		}
		out := map[string]string{}
		for k, v := range files {
			if strings.HasPrefix(k, p+"/") {
				out[strings.TrimPrefix(k, p+"/")] = v
			}
		}
		return out
	}
	for i := range c.Ops {
		op := c.Ops[i]
		switch op.Kind {
		case "upstreamCommit":
			nf := pickFiles(core.NewRand(c.Seed^uint64(op.N)), names, must, op.N)
			if upPath != "" && (op.Mode == "outside-first-upstream-path" || op.Mode == "inside-first-upstream-path") {
				// keep one side of the first directive's upstream path exactly as it was
				keepInside := op.Mode == "outside-first-upstream-path"
				merged := map[string]string{}
				for k, v := range upFiles {
					if strings.HasPrefix(k, upPath+"/") == keepInside {
						merged[k] = v
					}
				}
				for k, v := range nf {
					if strings.HasPrefix(k, upPath+"/") != keepInside {
						merged[k] = v
					}
				}
				nf = merged
			}
			upFiles = nf
			upTip = up.CommitTree(up.WriteFiles(upFiles), []string{upTip}, fmt.Sprintf("up%d", i))
			up.SetRef(upRef, upTip)
			recordUp()
			upChanges++
			lastPropAfterChange = true
			outcomes = append(outcomes, "up")
		case "upstreamSkipLatest":
			raw, _ := world.WalkRSLGit(up, rsl.Ref)
			for j := len(raw) - 1; j >= 0; j-- {
				if raw[j].Kind == "reference" && raw[j].Ref == upRef {
					if err := rsl.NewAnnotationEntry([]githash.Hash{simstore.H(raw[j].ID)}, true, "revoke").Commit(upGI, false); err != nil {
						panic(gitx.HarnessError{Err: err})
					}
					break
				}
			}
			lastPropAfterChange = true
			outcomes = append(outcomes, "skip")
		case "downstreamCommit":
			cur := down.ListTree(down.GetRef(downRef))
			cur[fmt.Sprintf("local-%d.txt", op.N%7)] = down.WriteBlob([]byte(fmt.Sprintf("local-%d", op.N)))
			t := down.WriteTree(cur)
			id := down.CommitTree(t, []string{down.GetRef(downRef)}, "local work")
			down.SetRef(downRef, id)
			outcomes = append(outcomes, "down")
		case "propagate":
			for rep := 0; rep < op.N; rep++ {
				before := down.ListTree(down.GetRef(downRef))
				tipBefore := down.GetRef(downRef)
				rawBefore, _ := world.WalkRSLGit(down, rsl.Ref)
				// what the upstream's latest unskipped recorded state is
				upRaw, _ := world.WalkRSLGit(up, rsl.Ref)
				skipped := map[string]bool{}
				for _, e := range upRaw {
					if e.Kind == "annotation" && e.Skip {
						for _, t := range e.Targets {
							skipped[t] = true
						}
					}
				}
				var src *world.RawEntry
				for j := len(upRaw) - 1; j >= 0; j-- {
					e := upRaw[j]
					if (e.Kind == "reference" || e.Kind == "propagation") && e.Ref == upRef && !(e.Kind == "reference" && skipped[e.ID]) {
						src = e
						break
					}
				}
				perr := propagation.PropagateChangesFromUpstreamRepository(downGI, upGI, directives, false)
				propagations++
				if lastPropAfterChange && propagations > 1 {
					changedBetween = true
				}
				lastPropAfterChange = false
				after := down.ListTree(down.GetRef(downRef))
				tipAfter := down.GetRef(downRef)
				rawAfter, chainProblem := world.WalkRSLGit(down, rsl.Ref)
				if perr != nil {
					// an error is acceptable only if nothing changed
					outcomes = append(outcomes, "prop:err")
					if tipAfter != tipBefore || len(rawAfter) != len(rawBefore) {
						viol("failed-propagation-changed-state", fmt.Sprintf("propagation failed (%v) but the downstream ref or log changed", perr))
					} else {
						viol("propagation-failed", fmt.Sprintf("propagation failed on well-formed repositories: %v", perr))
					}
					break
				}
				if chainProblem != "" {
					viol("chain-broken", "downstream log after propagation: "+chainProblem)
					break
				}
				// expected tree
				expected := map[string]string{}
				for k, v := range before {
					expected[k] = v
				}
				expectChange := false
				if src != nil {
					srcFiles := up.ListTree(src.Target)
					for _, ds := range dspecs {
						sub := subtreeOf(srcFiles, ds.upPath)
						cur := subtreeOf(expected, ds.downClean)
						same := len(sub) == len(cur)
						if same {
							for k, v := range sub {
								if cur[k] != v {
									same = false
								}
							}
						}
						if !same {
							expectChange = true
						}
						for k := range expected {
							if strings.HasPrefix(k, ds.downClean+"/") {
								delete(expected, k)
							}
						}
						for k, v := range sub {
							expected[ds.downClean+"/"+k] = v
						}
					}
				}
				// compare (once the loss of entry modes has been reported for this case, modes are left
				// out of the later comparisons so that everything else is still checked)
				if modeBlind {
					for k, v := range expected {
						expected[k] = blobOf(v)
					}
					for k, v := range after {
						after[k] = blobOf(v)
					}
				}
				diff := []string{}
				bystander := false
				for k, v := range expected {
					if after[k] != v {
						diff = append(diff, fmt.Sprintf("%q expected %s got %s", k, short10(v), short10(after[k])))
						under := false
						for _, ds := range dspecs {
							if strings.HasPrefix(k, ds.downClean+"/") {
								under = true
							}
						}
						if !under {
							bystander = true
						}
					}
				}
				for k, v := range after {
					if _, ok := expected[k]; !ok {
						diff = append(diff, fmt.Sprintf("%q unexpected (%s)", k, short10(v)))
						under := false
						for _, ds := range dspecs {
							if strings.HasPrefix(k, ds.downClean+"/") {
								under = true
							}
						}
						if !under {
							bystander = true
						}
					}
				}
				sort.Strings(diff)
				if len(diff) > 0 {
					class := "subtree-mismatch"
					if bystander {
						class = "bystander-path-changed"
					}
					// do the trees differ in entry modes only (same paths, same blobs)?
					modesOnly := len(expected) == len(after)
					for k, v := range expected {
						if a, ok := after[k]; !ok || blobOf(a) != blobOf(v) {
							modesOnly = false
						}
					}
					if modesOnly {
						viol(class, fmt.Sprintf("after propagation the downstream tree has the expected paths and contents but different entry modes (executables / symbolic links became regular files): %s", strings.Join(headN(diff, 4), "; ")), "only-entry-modes-differ")
						modeBlind, modeFindings = true, modeFindings+1
						diff = nil
					}
				}
				if len(diff) > 0 {
					class := "subtree-mismatch"
					if bystander {
						class = "bystander-path-changed"
					}
					viol(class, fmt.Sprintf("after propagation the downstream tree differs from (old tree with %v replaced by the upstream's latest unskipped subtree): %s", dspecs, strings.Join(headN(diff, 4), "; ")))
					break
				}
				newEntries := rawAfter[len(rawBefore):]
				if !expectChange {
					if tipAfter != tipBefore || len(newEntries) != 0 {
						viol("not-idempotent", fmt.Sprintf("the downstream path already held the upstream content, yet propagation created %d log entr(ies) and moved the ref: %v", len(newEntries), tipAfter != tipBefore))
						break
					}
					outcomes = append(outcomes, "prop:noop")
					continue
				}
				if tipAfter == tipBefore {
					viol("subtree-mismatch", "content differs but no commit was created")
					break
				}
				okEntry := false
				for _, e := range newEntries {
					if e.Kind == "propagation" && e.Ref == downRef && e.Upstream == location && src != nil && e.UpEntry == src.ID {
						okEntry = true
					}
				}
				if last := newEntries; len(last) == 0 || !okEntry {
					viol("propagation-entry-wrong", fmt.Sprintf("propagation changed the downstream ref but the log entries appended (%s) do not name upstream %s and upstream entry %s", describeRaw(newEntries), location, short10(src.ID)))
					break
				}
				if newEntries[len(newEntries)-1].Target != tipAfter {
					viol("propagation-entry-wrong", "the last propagation entry does not record the new downstream tip")
					break
				}
				outcomes = append(outcomes, fmt.Sprintf("prop:changed%d", len(newEntries)))
			}
		}
		if len(res.Violations) > modeFindings {
			break
		}
	}
	classes := []string{}
	for _, k := range sortedKeys(upFiles) {
		classes = append(classes, nameClass(k))
	}
	res.Steps = len(c.Ops)
	res.Digest = core.HashStrings(strings.Join(outcomes, ","), strings.Join(classes, ","), fmt.Sprint(c.Config))
	res.StateKey = res.Digest
	res.Nontrivial = propagations >= 2 && (changedBetween || oddPresent)
	res.Stat("probe:odd_names_present", boolInt(oddPresent))
	res.Stat("probe:upstream_path_directive", boolInt(upPath != ""))
	res.Stat("probe:noop_propagation_observed", boolInt(strings.Contains(strings.Join(outcomes, ","), "noop")))
	res.Stat("git_propagate_calls", propagations)
	res.Sample = map[string]any{"upstream_path": upPath, "downstream_path": downPath, "upstream_files": sortedKeys(upFiles), "downstream_files": sortedKeys(downFiles), "steps": outcomes}
	_ = os.Getpid
	return res
}

// blobOf strips the mode from a ListTree value.
func blobOf(v string) string {
	if _, id, ok := strings.Cut(v, ":"); ok {
		return id
	}
	return v
}

func nameClass(k string) string {
	switch {
	case strings.Contains(k, " "):
		return "space"
	case strings.ContainsAny(k, "\t\"\\"):
		return "quote"
	case len(k) != len([]rune(k)):
		return "utf8"
	case strings.ContainsAny(k, "*?["):
		return "glob"
	}
	return "plain"
}
