package props

import (
	"context"
	"fmt"
	"strings"

	"github.com/gittuf/gittuf/internal/policy"
	"github.com/gittuf/gittuf/verifsim/core"
	"github.com/gittuf/gittuf/verifsim/gitx"
	"github.com/gittuf/gittuf/verifsim/world"
)

// The network slice of C11: "when a root of trust (the repository's own or a
// controller's) declares global rules ...". A controller's root reaches a
// repository only by cloning and propagation, i.e. on real git.

var c11netRules = [][]world.GlobalRuleSpec{
	nil,
	{{Name: "thr2-main", Kind: "threshold", Patterns: []string{"git:" + mainRef}, Threshold: 2}},
	{{Name: "noforce-main", Kind: "block-force-pushes", Patterns: []string{"git:" + mainRef}}},
	{{Name: "thr2-other", Kind: "threshold", Patterns: []string{"git:refs/heads/other"}, Threshold: 2}},
	{{Name: "noforce-release", Kind: "block-force-pushes", Patterns: []string{"git:refs/heads/release"}}},
	{{Name: "thr1-main", Kind: "threshold", Patterns: []string{"git:" + mainRef}, Threshold: 1}},
}

func c11IsNetCase(idx uint64) bool { return idx%16 < 3 && (idx/16)%40 == 0 }
func c11NetSeq(idx uint64) uint64  { return (idx/640)*3 + idx%16 }

// c11netCombos: (what the controller's root declares, what the repository's own
// root declares) as indexes into c11netRules, most telling combinations first.
var c11netCombos = [][2]int{{1, 4}, {2, 4}, {1, 0}, {2, 0}, {1, 2}, {2, 1}, {3, 4}, {0, 1}, {0, 2}, {1, 5}, {3, 0}, {0, 0}}

func (c11) generateNet(r *core.Rand, tier string, idx uint64) *core.Case {
	c := &core.Case{Property: "C11", Engine: "git", Config: map[string]int{}, Flags: map[string]bool{}, Strs: map[string]string{}}
	seq := c11NetSeq(idx)
	combo := c11netCombos[seq%uint64(len(c11netCombos))]
	c.Config["ctlRules"], c.Config["netRules"] = combo[0], combo[1]
	// pushes to main after the controller's root was propagated: o = one signer, t = two (signer + approval), f = force push by one signer
	kinds := []string{}
	for i, n := 0, r.Range(1, 3); i < n; i++ {
		kinds = append(kinds, []string{"o", "t", "f", "t"}[r.Intn(4)])
	}
	if r.Chance(0.6) {
		// make sure the history has what global rules are about: a change with a single
		// authenticated principal, or a rewrite of an existing branch
		kinds = append(kinds, []string{"o", "f"}[r.Intn(2)])
	}
	c.Strs["pushes"] = strings.Join(kinds, "")
	c.Flags["pushBeforePropagation"] = r.Chance(0.4)
	return c
}

func (d c11) executeNet(c *core.Case) (res *core.Result) {
	res = &core.Result{}
	defer func() {
		if r := recover(); r != nil {
			if he, ok := r.(gitx.HarnessError); ok {
				res = &core.Result{HarnessErr: he.Error()}
				return
			}
			panic(r)
		}
	}()
	ctlRules := c11netRules[c.Config["ctlRules"]%len(c11netRules)]
	netRules := c11netRules[c.Config["netRules"]%len(c11netRules)]
	e, err := newNetEnv(ctlRules, netRules)
	if err != nil {
		// building the two repositories is gittuf code (staging, applying); without them nothing can be said
		res.StateKey = "net-setup-failed"
		res.Stat("net_setup_failed", 1)
		return res
	}
	defer e.Close()
	type pushed struct {
		signers   int
		force     bool
		afterProp bool
		first     bool
	}
	hist := []pushed{}
	n := 0
	do := func(kind byte, afterProp bool) {
		n++
		from := e.net.GetRef(mainRef)
		switch kind {
		case 't':
			cm := e.commit(mainRef, 1, fmt.Sprintf("p%d", n), false)
			if err := e.approve(mainRef, from, cm, 2); err != nil {
				panic(gitx.HarnessError{Err: fmt.Errorf("approval: %w", err)})
			}
			e.record(mainRef, cm, 1)
			hist = append(hist, pushed{signers: 2, afterProp: afterProp, first: from == ""})
		case 'f':
			e.push(mainRef, 1, fmt.Sprintf("p%d-rewrite", n), true)
			hist = append(hist, pushed{signers: 1, force: from != "", afterProp: afterProp, first: from == ""})
		default:
			e.push(mainRef, 1, fmt.Sprintf("p%d", n), false)
			hist = append(hist, pushed{signers: 1, afterProp: afterProp, first: from == ""})
		}
	}
	if c.Flags["pushBeforePropagation"] {
		do('o', false)
	}
	if err := e.propagate(); err != nil {
		res.StateKey = "net-propagation-failed"
		res.Stat("net_propagation_failed", 1)
		res.Sample = map[string]any{"engine": "git", "propagation_error": err.Error()}
		return res
	}
	for i := 0; i < len(c.Strs["pushes"]); i++ {
		do(c.Strs["pushes"][i], true)
	}
	_, verr := policy.NewPolicyVerifier(e.netGI).VerifyRefFull(context.Background(), mainRef)
	class := world.Classify(verr)

	// the statement, over what the harness did
	expect, why, feats := mustAccept, "every push meets the branch rule and every matching global rule of both roots", []string{"engine=git"}
	for i, p := range hist {
		rules := append([]world.GlobalRuleSpec{}, netRules...)
		if p.afterProp {
			rules = append(rules, ctlRules...)
		}
		for _, g := range rules {
			if g.Patterns[0] != "git:"+mainRef {
				continue
			}
			declaredBy := "own-root"
			for _, cg := range ctlRules {
				if cg.Name == g.Name {
					declaredBy = "controller-root"
				}
			}
			if g.Kind == "threshold" && p.signers < g.Threshold {
				expect, why = mustReject, fmt.Sprintf("push #%d carries %d authenticated principal(s), global rule %s (%s) demands %d", i+1, p.signers, g.Name, declaredBy, g.Threshold)
				feats = append(feats, "global-rule-unmet", "declared-by="+declaredBy)
			}
			if g.Kind == "block-force-pushes" && p.force && !p.first {
				expect, why = mustReject, fmt.Sprintf("push #%d rewrites history, global rule %s (%s) forbids it", i+1, g.Name, declaredBy)
				feats = append(feats, "global-rule-unmet", "declared-by="+declaredBy)
			}
		}
		if expect == mustReject {
			break
		}
	}
	if len(netRules) > 0 {
		feats = append(feats, "own-root-declares-global-rules")
	}
	switch expect {
	case mustReject:
		res.Stat("verdicts_must_reject", 1)
		if class == "accept" {
			res.Violate("C11", "false-accept", fmt.Sprintf("full verification of main in the network repository succeeded although %s", why), 0, feats...)
		}
	case mustAccept:
		res.Stat("verdicts_must_accept", 1)
		if class != "accept" {
			res.Violate("C11", "false-reject", fmt.Sprintf("full verification of main in the network repository returned %s (%v) although %s", class, verr, why), 0, feats...)
		}
	}
	shape := fmt.Sprintf("ctl=%d net=%d pushes=%s before=%v -> %s", c.Config["ctlRules"], c.Config["netRules"], c.Strs["pushes"], c.Flags["pushBeforePropagation"], class)
	res.Steps = len(hist)
	res.Digest = core.HashStrings(shape)
	res.StateKey = "net/" + res.Digest
	res.Nontrivial = len(ctlRules) > 0
	res.Stat("net_cases", 1)
	res.Stat("probe:net_controller_rule_decided_the_verdict", boolInt(expect == mustReject && strings.Contains(why, "controller-root")))
	res.Sample = map[string]any{"engine": "git", "case": shape, "expectation": why}
	return res
}
