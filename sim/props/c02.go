package props

import (
	"fmt"
	"sort"
	"strings"

	"github.com/gittuf/gittuf/verifsim/core"
	"github.com/gittuf/gittuf/verifsim/model"
	"github.com/gittuf/gittuf/verifsim/world"
)

// C02 — policy takes effect only via an unbroken, rollback-free chain of trust.
type c02 struct{}

func init() {
	core.Register(c02{})
	core.TierTable["C02"] = map[string]core.TierCfg{"quick": {Runs: 20000, BudgetS: 75}, "thorough": {Runs: 800000, BudgetS: 1200}}
}

func (c02) ID() string    { return "C02" }
func (c02) Level() string { return "exploration" }
func (c02) Rule() string {
	return "A case is a sequence of 2-6 policy states, each produced either by the honest root quorum through stage+apply (root key rotation, threshold changes, re-signing, version bumps, rule and delegated-file edits) or by an adversary who writes a state straight onto refs/gittuf/policy with its log entry (message replay / forgery by the forge): root signed by too few or only new keys, old root envelope with a rule file signed by an untrusted key, lowered or replayed versions, a vanished or unreachable rule file, a delegated file signed by the wrong keys, wholesale replay of an older state. Pushes by developers and by the adversary's key are placed before, between and after the policy entries by the seed. Oracle: the chain conditions of the statement evaluated on the policy specs (ground truth); a verification (full, latest-only, from-entry, LoadCurrentState) that depends on an invalid state must fail; with a valid chain and authorised entries it must succeed. Distinct = distinct (chain shape with per-state defect set, position of reference entries, verdict vector); non-trivial = at least 2 policy states, at least one reference entry after the second, and at least one specified verdict."
}
func (c02) Components() map[string]string {
	return map[string]string{"internal/policy (LoadState, State.Verify, VerifyNewState, verifier, Apply)": "real", "internal/tuf/v02": "real", "signature verification": "real", "gitstore.Storer": "stub (SimStore)"}
}
func (c02) Assumptions() []string {
	return []string{
		"a successor root that is signed by the predecessor's threshold but not by its own root role is counted unspecified (the statement requires only the former; the implementation also self-verifies)",
		"a verification depends on every policy entry from the first up to the last one preceding its last examined entry",
	}
}

type chainDefects []string

// stateDefects evaluates the conditions of the statement for cur replacing prev
// (prev nil: first state, trusted on first use).
func stateDefects(prev, cur *world.PolicySpec) (defects chainDefects, unspecified bool) {
	inter := func(signers, keys []int) int {
		ks := map[int]bool{}
		for _, k := range keys {
			ks[k] = true
		}
		seen := map[int]bool{}
		for _, s := range signers {
			if ks[s] {
				seen[s] = true
			}
		}
		return len(seen)
	}
	if prev != nil && inter(cur.RootSigners, prev.RootKeys) < prev.RootThreshold {
		defects = append(defects, "root-not-signed-by-predecessor-threshold")
	}
	if inter(cur.RootSigners, cur.RootKeys) < cur.RootThreshold {
		unspecified = true
	}
	t := cur.Files["targets"]
	if t != nil {
		if inter(t.Signers, cur.TargetsKeys) < cur.TargetsThreshold {
			defects = append(defects, "primary-rule-file-not-signed-by-threshold")
		}
		// delegated files: reachable through a rule of the same name, signed as that rule requires
		reached := map[string]bool{}
		principals := map[string]world.PrincipalSpec{}
		for _, ps := range t.Principals {
			principals[ps.ID] = ps
		}
		queue := append([]world.RuleSpec{}, t.Rules...)
		for len(queue) > 0 {
			r := queue[0]
			queue = queue[1:]
			f, ok := cur.Files[r.Name]
			if !ok || r.Name == "targets" {
				continue
			}
			if reached[r.Name] {
				continue
			}
			reached[r.Name] = true
			keys := []int{}
			for _, id := range r.Principals {
				keys = append(keys, principals[id].Keys...)
			}
			// distinct principals each with one of their keys
			cnt := 0
			for _, id := range r.Principals {
				for _, k := range principals[id].Keys {
					if inter(f.Signers, []int{k}) > 0 {
						cnt++
						break
					}
				}
			}
			if cnt < r.Threshold {
				defects = append(defects, "delegated-file-not-signed-as-delegating-rule-requires")
			}
			for _, ps := range f.Principals {
				principals[ps.ID] = ps
			}
			queue = append(append([]world.RuleSpec{}, f.Rules...), queue...)
		}
		for name := range cur.Files {
			if name != "targets" && !reached[name] {
				defects = append(defects, "unreachable-rule-file")
			}
		}
	} else if len(cur.Files) > 0 {
		defects = append(defects, "unreachable-rule-file")
	}
	if prev != nil {
		if cur.RootVersion < prev.RootVersion {
			defects = append(defects, "root-version-decreased")
		}
		if pt := prev.Files["targets"]; pt != nil {
			if t == nil {
				defects = append(defects, "rule-file-disappeared")
			} else {
				if t.Version < pt.Version {
					defects = append(defects, "rule-file-version-decreased")
				}
				for name, pf := range prev.Files {
					if name == "targets" {
						continue
					}
					cf, ok := cur.Files[name]
					if !ok {
						defects = append(defects, "rule-file-disappeared")
					} else if cf.Version < pf.Version {
						defects = append(defects, "rule-file-version-decreased")
					}
				}
			}
		}
	}
	sort.Strings(defects)
	return defects, unspecified
}

const advKey = 6 // the adversary's key (never trusted by an honest state)

func (c02) Generate(r *core.Rand, tier string, idx uint64) *core.Case {
	c := &core.Case{Property: "C02", Engine: "simstore", Config: map[string]int{}, Flags: map[string]bool{}}
	b := &opBuilder{}
	// actors: 0 root A, 1..3 devs, 4 root B (key 4), 5 root C (key 5), 6 adversary (key 6)
	devs := []int{1, 2}
	pol := simplePolicy(devs, 1)
	pol.Files["targets"].Principals = append(pol.Files["targets"].Principals, world.KeyPrincipal(3), world.KeyPrincipal(advKey))
	if r.Chance(0.4) {
		// a delegated file under protect-main
		pol.Files["protect-main"] = &world.RuleFileSpec{Version: 1, Signers: []int{1},
			Principals: []world.PrincipalSpec{world.KeyPrincipal(3)},
			Rules:      []world.RuleSpec{{Name: "main-delegates", Patterns: []string{"git:" + mainRef}, Principals: []string{world.GetKey(3).ID}, Threshold: 1}}}
	}
	if r.Chance(0.45) {
		pol.RootKeys = []int{0, 4}
		pol.RootThreshold = r.Range(1, 2)
		if r.Chance(0.5) {
			pol.RootThreshold = 2
		}
		pol.RootSigners = []int{0, 4}
	}
	b.add(world.Op{Kind: "stage", Actor: 0, Policy: pol})
	b.add(world.Op{Kind: "apply", Actor: 0})
	history := []*world.PolicySpec{pol}
	nStates := r.Range(1, 5)
	policyOps := []int{len(b.ops)} // ops that recorded an entry for the policy ref
	pushSome := func() {
		n := r.Intn(3)
		for i := 0; i < n; i++ {
			who := devs[r.Intn(len(devs))]
			if r.Chance(0.25) {
				who = advKey // the adversary pushes with its own key
			}
			b.add(world.Op{Kind: "push", Actor: who, Ref: mainRef, Files: fileFor(r, len(b.ops)), CommitKey: who, EntryKey: -2})
		}
		if len(policyOps) > 0 && r.Chance(0.2) {
			// anybody can record an annotation naming a policy entry; the chain of trust must not care
			who := devs[r.Intn(len(devs))]
			if r.Chance(0.4) {
				who = advKey
			}
			b.add(world.Op{Kind: "annotate", Actor: who, Targets: []int{policyOps[r.Intn(len(policyOps))]}, Skip: r.Chance(0.8), Msg: "revoke policy", EntryKey: -2})
			c.Flags["policyEntryAnnotated"] = true
		}
		if r.Chance(0.3) {
			b.add(world.Op{Kind: "verify", Actor: 1, Ref: mainRef, Mode: []string{"full", "latest"}[r.Intn(2)]})
		}
	}
	pushSome()
	badSeen := false
	for s := 0; s < nStates; s++ {
		cur := history[len(history)-1].Clone()
		if cur.Files["targets"] == nil {
			cur.Files["targets"] = history[0].Clone().Files["targets"]
		}
		honest := r.Chance(0.5)
		if honest {
			// honest successor through the API
			switch r.Intn(5) {
			case 0: // rotate / extend root
				if len(cur.RootKeys) == 1 {
					cur.RootKeys = append(cur.RootKeys, 4)
				} else {
					cur.RootKeys = cur.RootKeys[:1]
					cur.RootThreshold = 1
				}
				cur.RootVersion++
			case 1:
				if len(cur.RootKeys) >= 2 {
					cur.RootThreshold = 3 - cur.RootThreshold
					if cur.RootThreshold < 1 {
						cur.RootThreshold = 1
					}
				}
				cur.RootVersion++
			case 2:
				cur.Files["targets"].Version++
				cur.Files["targets"].Rules[0].Principals = []string{world.GetKey(devs[r.Intn(len(devs))]).ID, world.GetKey(3).ID}
			case 3:
				cur.Files["targets"].Version++
				cur.RootVersion++
			case 4: // keep everything, just re-sign with every root key
			}
			// an honest quorum signs with all old and new root keys
			signers := map[int]bool{}
			for _, k := range history[len(history)-1].RootKeys {
				signers[k] = true
			}
			for _, k := range cur.RootKeys {
				signers[k] = true
			}
			cur.RootSigners = nil
			for k := range signers {
				cur.RootSigners = append(cur.RootSigners, k)
			}
			sort.Ints(cur.RootSigners)
			if del, ok := cur.Files["protect-main"]; ok {
				// keep the delegated file signed by a principal of the (possibly changed) rule
				for _, d := range append(devs, 3) {
					for _, id := range cur.Files["targets"].Rules[0].Principals {
						if world.GetKey(d).ID == id {
							del.Signers = []int{d}
						}
					}
				}
			}
			if badSeen {
				// after a broken state the honest holder's apply will be refused; still generated
			}
			b.add(world.Op{Kind: "stage", Actor: 0, Policy: cur})
			policyOps = append(policyOps, b.add(world.Op{Kind: "apply", Actor: 0}))
			c.Flags["hasHonestSuccessor"] = true
			history = append(history, cur)
		} else {
			kind := r.Intn(11)
			switch kind {
			case 10: // same root principals, threshold lowered to 1, signed by a single root key
				cur.RootThreshold = 1
				cur.RootVersion++
				cur.RootSigners = cur.RootKeys[:1]
			case 0: // old root envelope, rule file forged: adversary authorises itself, signs with its own key
				t := cur.Files["targets"]
				t.Version++
				t.Rules[0].Principals = []string{world.GetKey(advKey).ID}
				t.Signers = []int{advKey}
			case 1: // new root naming the adversary, signed only by the adversary
				cur.RootKeys = []int{advKey}
				cur.RootThreshold = 1
				cur.TargetsKeys = []int{advKey}
				cur.RootSigners = []int{advKey}
				cur.RootVersion++
				cur.Files["targets"].Signers = []int{advKey}
				cur.Files["targets"].Version++
				cur.Files["targets"].Rules[0].Principals = []string{world.GetKey(advKey).ID}
			case 2: // root signed by too few of the old keys (only matters when threshold is 2)
				cur.RootVersion++
				cur.RootSigners = cur.RootKeys[:1]
			case 3: // root version lowered (replay of an older root number)
				cur.RootVersion = 0
			case 4: // rule file version lowered
				cur.Files["targets"].Version = 0
			case 5: // wholesale replay of the first state
				cur = history[0].Clone()
			case 6: // delegated / primary rule file vanishes
				if _, ok := cur.Files["protect-main"]; ok {
					delete(cur.Files, "protect-main")
					if r.Chance(0.5) {
						// ... together with the rule that delegated to it (renamed, everything validly signed)
						t := cur.Files["targets"]
						t.Version++
						for i := range t.Rules {
							if t.Rules[i].Name == "protect-main" {
								t.Rules[i].Name = "protect-main-v2"
							}
						}
					}
				} else {
					delete(cur.Files, "targets")
				}
			case 7: // unreachable rule file added
				cur.Files["orphan"] = &world.RuleFileSpec{Version: 1, Signers: []int{advKey}, Principals: []world.PrincipalSpec{world.KeyPrincipal(advKey)},
					Rules: []world.RuleSpec{{Name: "orphan-rule", Patterns: []string{"git:" + mainRef}, Principals: []string{world.GetKey(advKey).ID}, Threshold: 1}}}
			case 8: // delegated file replaced, signed by the adversary
				cur.Files["protect-main"] = &world.RuleFileSpec{Version: 5, Signers: []int{advKey}, Principals: []world.PrincipalSpec{world.KeyPrincipal(advKey)},
					Rules: []world.RuleSpec{{Name: "main-delegates", Patterns: []string{"git:" + mainRef}, Principals: []string{world.GetKey(advKey).ID}, Threshold: 1}}}
			case 9: // a perfectly valid state, but written directly (no defect)
				cur.Files["targets"].Version++
			}
			policyOps = append(policyOps, b.add(world.Op{Kind: "byzPolicy", Actor: 6, Policy: cur, EntryKey: -2, N: kind}))
			badSeen = true
			history = append(history, cur)
		}
		pushSome()
	}
	b.add(world.Op{Kind: "loadPolicy", Actor: 1})
	c.Ops = b.ops
	return c
}

func (d c02) Execute(c *core.Case) *core.Result {
	res := &core.Result{}
	keys := []int{0, 1, 2, 3, 4, 5, advKey}
	run := runPolicyCaseLenient(c, keys, []string{mainRef})
	if run.Panic != "" {
		res.Violate("C02", "panic", run.Panic, 0)
		return res
	}
	w, l := run.W, run.L
	// chain evaluation over policy entries in log order
	type pstate struct {
		pos     int
		defects chainDefects
		unspec  bool
	}
	chain := []pstate{}
	var prev *world.PolicySpec
	unknownSeen := false
	for i, e := range w.Entries {
		if e.Kind == "reference" && e.Ref == policyRef {
			if e.Policy == nil || unknownSeen {
				// the simulator does not know what this state holds: nothing after it can be judged
				unknownSeen = true
				chain = append(chain, pstate{pos: i, unspec: true})
				continue
			}
			df, un := stateDefects(prev, e.Policy)
			chain = append(chain, pstate{pos: i, defects: df, unspec: un})
			prev = e.Policy
		}
	}
	shape := []string{}
	for _, s := range chain {
		shape = append(shape, fmt.Sprintf("%d:%s:%v", s.pos, strings.Join(s.defects, "+"), s.unspec))
	}
	specified := 0
	vec := []string{}
	judge := func(rec vrec, lastExamined int) {
		// dependencies: every policy entry before lastExamined
		var bad *pstate
		anyUnspec := false
		deps := 0
		for k := range chain {
			s := &chain[k]
			if s.pos >= lastExamined || s.pos >= rec.LogLen {
				break
			}
			deps++
			if s.unspec {
				anyUnspec = true
			}
			if len(s.defects) > 0 && bad == nil {
				bad = s
			}
		}
		mode := modeOf(&rec.Op)
		if rec.Op.Kind == "loadPolicy" {
			mode = "load"
		}
		vec = append(vec, mode+"="+rec.Verdict.Class)
		if bad != nil {
			specified++
			res.Stat("verdicts_must_reject", 1)
			if rec.Verdict.Class == "accept" {
				feats := append([]string{"mode=" + mode}, bad.defects...)
				if bad.pos > rec.FromPos && mode != "load" && mode != "latest" {
					feats = append(feats, "invalid-state-strictly-inside-verified-range")
				}
				res.Violate("C02", "invalid-policy-took-effect", fmt.Sprintf("%s verification succeeded although the policy state recorded at log position %d breaks the chain of trust (%s)", mode, bad.pos, strings.Join(bad.defects, ", ")), rec.Op.ID, feats...)
			}
			return
		}
		if anyUnspec || deps == 0 {
			res.Stat("verdicts_unspecified", 1)
			return
		}
		if rec.Op.Kind == "loadPolicy" {
			specified++
			res.Stat("verdicts_must_accept", 1)
			if rec.Verdict.Class != "accept" {
				res.Violate("C02", "valid-chain-rejected", fmt.Sprintf("LoadCurrentState failed (%s) although every policy state satisfies the chain conditions", rec.Verdict.Err), rec.Op.ID, "mode=load")
			}
			return
		}
		lg := truncatedLog(run, rec.LogLen)
		exp, why, _ := expectFor(lg, rec.Op.Ref, mode, rec.FromPos)
		switch exp {
		case mustAccept:
			specified++
			res.Stat("verdicts_must_accept", 1)
			if rec.Verdict.Class != "accept" {
				res.Violate("C02", "valid-chain-rejected", fmt.Sprintf("%s verification failed (%s) although every policy state it depends on satisfies the chain conditions and %s", mode, rec.Verdict.Err, why), rec.Op.ID, "mode="+mode)
			}
		default:
			res.Stat("verdicts_unspecified", 1)
		}
	}
	for _, rec := range run.Recs {
		lastExamined := rec.LogLen
		if rec.Op.Kind != "loadPolicy" {
			lg := truncatedLog(run, rec.LogLen)
			pos := lg.PositionsForRef(rec.Op.Ref)
			if len(pos) == 0 {
				continue
			}
			lastExamined = pos[len(pos)-1]
		}
		judge(rec, lastExamined)
	}
	afterSecond := false
	if len(chain) >= 2 {
		for _, p := range l.PositionsForRef(mainRef) {
			if p > chain[1].pos {
				afterSecond = true
			}
		}
	}
	res.Steps = len(c.Ops)
	res.Digest = core.HashStrings(strings.Join(shape, ","), strings.Join(vec, ","), refDigest(w.St))
	res.StateKey = core.HashStrings(strings.Join(shape, ","), strings.Join(vec, ","), strings.Join(entryPatternRefs(run), ","))
	res.Nontrivial = len(chain) >= 2 && afterSecond && specified >= 1
	anyBad := false
	for _, s := range chain {
		if len(s.defects) > 0 {
			anyBad = true
		}
	}
	res.Stat("probe:invalid_state_in_chain", boolInt(anyBad))
	res.Stat("probe:honest_root_rotation_applied", boolInt(len(chain) >= 2 && !anyBad && c.Flags["hasHonestSuccessor"]))
	res.Sample = map[string]any{"ops": describeOps(c.Ops), "chain(pos:defects:unspecified)": shape, "verdicts": vec}
	return res
}

func entryPatternRefs(r *pwRun) []string {
	out := []string{}
	for _, e := range r.W.Entries {
		out = append(out, e.Kind[:1]+strings.TrimPrefix(strings.TrimPrefix(e.Ref, "refs/gittuf/"), "refs/heads/"))
	}
	return out
}

// runPolicyCaseLenient is runPolicyCase for worlds in which policy operations
// of honest actors may legitimately be refused (C02, C12).
func runPolicyCaseLenient(c *core.Case, keys []int, finalRefs []string) *pwRun {
	w := world.NewWithKeys(keys)
	w.Env.RecordEvents = false
	run := &pwRun{W: w, L: &model.Log{W: w}, OpErrors: map[int]string{}}
	for i := range c.Ops {
		op := c.Ops[i]
		out := w.Exec(&op)
		if out.Err == world.ErrSkipped {
			continue
		}
		if out.Panic != nil {
			run.Panic = fmt.Sprintf("op #%d %s panicked: %v", op.ID, op.Kind, out.Panic)
			return run
		}
		if out.Err != nil {
			run.OpErrors[op.ID] = out.Err.Error()
		}
		if op.Kind == "verify" || op.Kind == "loadPolicy" {
			run.Recs = append(run.Recs, vrec{Op: op, Verdict: w.Verdicts[op.ID], LogLen: len(w.Entries)})
		}
	}
	id := 10000
	for _, ref := range finalRefs {
		pos := run.L.PositionsForRef(ref)
		if len(pos) == 0 {
			continue
		}
		modes := []world.Op{{Kind: "verify", Ref: ref, Mode: "full"}, {Kind: "verify", Ref: ref, Mode: "latest"}}
		rr := core.NewRand(c.Seed ^ uint64(len(pos)))
		p := pos[rr.Intn(len(pos))]
		if w.Entries[p].Kind == "reference" {
			modes = append(modes, world.Op{Kind: "verify", Ref: ref, Mode: "from", FromEntry: w.Entries[p].OpID})
		}
		for _, m := range modes {
			id++
			m.ID = id
			m.Actor = 1
			w.Actors[1].Proc.Restart()
			out := w.Exec(&m)
			if out.Panic != nil {
				run.Panic = fmt.Sprintf("verification panicked: %v", out.Panic)
				return run
			}
			v := w.Verdicts[m.ID]
			if v.Class == "skipped" {
				continue
			}
			fromPos := 0
			if m.Mode == "from" {
				if e, ok2 := w.ByOp[m.FromEntry]; ok2 {
					fromPos = posOf(w, e.ID)
				}
			}
			run.Recs = append(run.Recs, vrec{Op: m, Verdict: v, FromPos: fromPos, LogLen: len(w.Entries)})
		}
	}
	return run
}
