package props

import (
	"fmt"
	"strings"

	"github.com/gittuf/gittuf/verifsim/core"
	"github.com/gittuf/gittuf/verifsim/sched"
	"github.com/gittuf/gittuf/verifsim/world"
)

// C03 — recording keeps the RSL an append-only, consecutively numbered single
// chain; successful operations append exactly what they report, failed ones
// nothing; annotations naming non-entries are refused.
type c03 struct{}

func init() {
	core.Register(c03{})
	core.TierTable["C03"] = map[string]core.TierCfg{"quick": {Runs: 60000, BudgetS: 60}, "thorough": {Runs: 3000000, BudgetS: 900}}
	core.TierTable["C17"] = map[string]core.TierCfg{"quick": {Runs: 150000, BudgetS: 60}, "thorough": {Runs: 6000000, BudgetS: 900}}
	core.TierTable["C16"] = map[string]core.TierCfg{"quick": {Runs: 8000, BudgetS: 60}, "thorough": {Runs: 400000, BudgetS: 900}}
}

func (c03) ID() string    { return "C03" }
func (c03) Level() string { return "exploration" }
func (c03) Rule() string {
	return "A case is a seeded sequence (up to 40) of recording operations by 4 actors — push, re-record, annotation (valid ids, ids of non-entry commits, blobs, missing objects), propagation entry, policy stage/apply/discard, approval commit, automatic skip, legacy unnumbered entries and the transition to numbering — with process restarts, repeats and seeded single-call io-errors inside a subset of operations. After every operation an independent walker re-reads the chain. Distinct = distinct (sequence of op kinds x outcomes x log shape); non-trivial = at least 3 operations appended entries and at least one operation failed or was faulted."
}
func (c03) Components() map[string]string {
	return map[string]string{"pkg/rsl": "real", "internal/policy": "real", "internal/attestations": "real", "gitstore.Storer": "stub (SimStore)", "walker/parser": "harness (independent of rsl.ParseEntryText)"}
}
func (c03) Assumptions() []string {
	return []string{"one process records at a time (concurrency is C17's subject)", "injected faults are plain call failures (no effect then error)"}
}

var oddRefs = []string{mainRef, featRef, "refs/heads/a b", "refs/heads/ünï", "refs/tags/v1", "refs/heads/x/y/z", "refs/gittuf/custom"}

func (c03) Generate(r *core.Rand, tier string, idx uint64) *core.Case {
	c := &core.Case{Property: "C03", Engine: "simstore", Config: map[string]int{}, Flags: map[string]bool{}}
	b := &opBuilder{}
	legacy := 0
	if r.Chance(0.25) {
		legacy = r.Range(1, 4)
	}
	n := r.Range(3, 40)
	if tier == "quick" {
		n = r.Range(3, 25)
	}
	pol := simplePolicy([]int{1, 2}, 1)
	ver := 1
	entryOps := []int{}
	commitOps := []int{}
	staged := false
	for i := 0; i < n; i++ {
		actor := r.Range(0, 3)
		if legacy > 0 {
			legacy--
			if len(entryOps) > 0 && r.Chance(0.3) {
				b.add(world.Op{Kind: "annotateNoNumber", Actor: actor, Targets: []int{entryOps[r.Intn(len(entryOps))]}, Skip: r.Chance(0.5), Msg: "legacy"})
				continue
			}
			id := b.add(world.Op{Kind: "pushNoNumber", Actor: actor, Ref: oddRefs[r.Intn(3)], Files: fileFor(r, i), CommitKey: actor})
			entryOps = append(entryOps, id)
			commitOps = append(commitOps, id)
			continue
		}
		switch r.Weighted([]int{30, 6, 14, 5, 8, 8, 3, 6, 4, 4, 4}) {
		case 0:
			id := b.add(world.Op{Kind: "push", Actor: actor, Ref: oddRefs[r.Intn(len(oddRefs))], Files: fileFor(r, i), CommitKey: actor, EntryKey: []int{-2, -1, actor}[r.Intn(3)]})
			entryOps = append(entryOps, id)
			commitOps = append(commitOps, id)
		case 1:
			if len(commitOps) == 0 {
				continue
			}
			id := b.add(world.Op{Kind: "record", Actor: actor, Ref: oddRefs[r.Intn(len(oddRefs))], Base: fmt.Sprintf("op:%d", commitOps[r.Intn(len(commitOps))]), EntryKey: -2})
			entryOps = append(entryOps, id)
		case 2:
			if len(entryOps) == 0 {
				continue
			}
			k := r.Range(1, 3)
			ts := []int{}
			for j := 0; j < k; j++ {
				if r.Chance(0.12) {
					ts = append(ts, -1-r.Intn(3))
				} else {
					ts = append(ts, entryOps[r.Intn(len(entryOps))])
				}
			}
			id := b.add(world.Op{Kind: "annotate", Actor: actor, Targets: ts, Skip: r.Chance(0.6), Msg: []string{"", "note", "-----BEGIN MESSAGE-----\nx", "multi\nline"}[r.Intn(4)], EntryKey: -2})
			if r.Chance(0.3) {
				entryOps = append(entryOps, id) // annotations of annotations
			}
		case 3:
			if len(commitOps) == 0 {
				continue
			}
			id := b.add(world.Op{Kind: "propagation", Actor: actor, Ref: oddRefs[r.Intn(len(oddRefs))], Base: fmt.Sprintf("op:%d", commitOps[r.Intn(len(commitOps))]), Upstream: "https://example.com/up:stream", EntryKey: -2})
			entryOps = append(entryOps, id)
		case 4:
			p := pol.Clone()
			ver++
			p.Files["targets"].Version = ver
			if r.Chance(0.2) {
				p.RootSigners = []int{3} // invalidly signed: apply must refuse
			}
			id := b.add(world.Op{Kind: "stage", Actor: 0, Policy: p})
			entryOps = append(entryOps, id)
			staged = true
		case 5:
			if !staged {
				continue
			}
			id := b.add(world.Op{Kind: "apply", Actor: 0})
			entryOps = append(entryOps, id)
		case 6:
			b.add(world.Op{Kind: "discard", Actor: 0})
		case 7:
			if len(commitOps) == 0 {
				continue
			}
			b.add(world.Op{Kind: "approve", Actor: actor, Approve: &world.ApproveSpec{Ref: mainRef, FromOp: 0, ToOp: commitOps[r.Intn(len(commitOps))], Signers: []int{actor}}})
		case 8:
			b.add(world.Op{Kind: "autoskip", Actor: actor, Ref: oddRefs[r.Intn(3)]})
		case 9:
			b.add(world.Op{Kind: "restart", Actor: actor})
		case 10:
			if len(b.ops) == 0 {
				continue
			}
			prev := b.ops[len(b.ops)-1]
			if prev.Kind == "push" || prev.Kind == "annotate" || prev.Kind == "record" || prev.Kind == "apply" || prev.Kind == "propagation" {
				dup := prev
				if dup.Kind == "push" {
					dup = world.Op{Kind: "record", Actor: prev.Actor, Ref: prev.Ref, Base: fmt.Sprintf("op:%d", prev.ID), EntryKey: prev.EntryKey}
				}
				b.add(dup)
			}
		}
	}
	// faults inside a subset of operations
	if r.Chance(0.6) {
		kinds := []string{"Commit.cas", "Commit.object", "Commit.read", "GetReference", "SetReference", "WriteBlob", "WriteTree", "GetCommitMessage", "ReadBlob", "GetCommitParentIDs", "EmptyTree", "GetCommitTreeID", "GetEntriesInTree", "GetAllFilesInTree", "KnowsCommit", "GetObjectSignature"}
		nf := r.Range(1, 4)
		for i := 0; i < nf && len(b.ops) > 0; i++ {
			op := b.ops[r.Intn(len(b.ops))]
			c.Faults = append(c.Faults, sched.Fault{At: sched.Desc{Op: op.ID, Kind: kinds[r.Weighted([]int{6, 3, 3, 6, 4, 3, 3, 4, 2, 3, 2, 1, 1, 1, 1, 1})], Key: "*", Nth: r.Range(1, 3)}, Type: sched.FIOError})
		}
	}
	c.Ops = b.ops
	return c
}

func (d c03) Execute(c *core.Case) *core.Result {
	res := &core.Result{}
	w := world.New(4)
	w.Env.RecordEvents = false
	w.Env.Faults = c.Faults
	tips := []string{}
	shape := []string{}
	appended := 0
	failed := 0
	for i := range c.Ops {
		op := &c.Ops[i]
		raw0, _ := world.WalkRSL(w.St)
		if t := rslTip(w.St); t != "" {
			tips = append(tips, t)
		}
		var out sched.Outcome
		switch op.Kind {
		case "pushNoNumber":
			// legacy entry: commit + unnumbered record
			o2 := *op
			o2.Kind = "push"
			out = execLegacyPush(w, &o2)
		default:
			out = w.Exec(op)
		}
		if out.Err == world.ErrSkipped {
			shape = append(shape, op.Kind+":skipped")
			continue
		}
		feat := []string{"op=" + op.Kind}
		if out.Panic != nil {
			res.Violate("C03", "panic", fmt.Sprintf("op #%d %s panicked: %v", op.ID, op.Kind, out.Panic), op.ID, feat...)
			break
		}
		injected := out.Err != nil && world.IsInjected(out.Err)
		if injected {
			feat = append(feat, "injected-error")
		}
		problem := chainProblem(w.St, tips)
		if problem != "" {
			res.Violate("C03", "chain-broken", fmt.Sprintf("after op #%d %s (err=%v): %s", op.ID, op.Kind, out.Err, problem), op.ID, feat...)
			break
		}
		raw, _ := world.WalkRSL(w.St)
		if len(raw) < len(raw0) {
			res.Violate("C03", "lost-entry", fmt.Sprintf("after op #%d %s the log shrank from %d to %d entries", op.ID, op.Kind, len(raw0), len(raw)), op.ID, feat...)
			break
		}
		fresh := raw[len(raw0):]
		if out.Err != nil {
			failed++
			if len(fresh) != 0 {
				f2 := append([]string{}, feat...)
				if op.Kind == "apply" && len(fresh) >= 1 && fresh[len(fresh)-1].Ref == stagingRef {
					f2 = append(f2, "entries-from-reconcile-staging")
				}
				res.Violate("C03", "failed-op-appended", fmt.Sprintf("op #%d %s failed (%v) but appended %d entries (%s)", op.ID, op.Kind, out.Err, len(fresh), describeRaw(fresh)), op.ID, f2...)
				break
			}
			shape = append(shape, op.Kind+":fail")
			continue
		}
		// success: exactly the entries the operation reports
		if why := expectedEntries(w, op, fresh); why != "" {
			res.Violate("C03", "wrong-entries-appended", fmt.Sprintf("op #%d %s succeeded but %s (appended: %s)", op.ID, op.Kind, why, describeRaw(fresh)), op.ID, feat...)
			break
		}
		if op.Kind == "annotate" {
			for _, t := range op.Targets {
				if t < 0 {
					res.Violate("C03", "annotation-accepted-non-entry", fmt.Sprintf("op #%d annotation naming a non-entry (kind %d) was accepted", op.ID, t), op.ID, feat...)
				}
			}
		}
		if len(fresh) > 0 {
			appended++
		}
		shape = append(shape, fmt.Sprintf("%s:ok%d", op.Kind, len(fresh)))
	}
	faultStats(res, w.Env)
	raw, _ := world.WalkRSL(w.St)
	nums := []string{}
	for _, e := range raw {
		nums = append(nums, fmt.Sprintf("%s%d", e.Kind[:1], e.Number))
	}
	res.Steps = len(c.Ops)
	res.Digest = core.HashStrings(strings.Join(shape, ","), strings.Join(nums, ","), refDigest(w.St))
	res.StateKey = core.HashStrings(strings.Join(shape, ","), strings.Join(nums, ","))
	res.Nontrivial = appended >= 3 && failed >= 1
	unnumbered := 0
	for _, e := range raw {
		if e.Number == 0 {
			unnumbered++
		}
	}
	res.Stat("probe:unnumbered_to_numbered_transition", boolInt(unnumbered > 0 && unnumbered < len(raw)))
	res.Stat("probe:injected_error_fired", boolInt(w.Env.Fired[sched.FIOError] > 0))
	res.Sample = map[string]any{"ops": describeOps(c.Ops), "outcomes": shape, "log": nums, "faults": c.Faults}
	return res
}

func describeRaw(es []*world.RawEntry) string {
	out := []string{}
	for _, e := range es {
		out = append(out, fmt.Sprintf("%s %s #%d", e.Kind, strings.TrimPrefix(e.Ref, "refs/"), e.Number))
	}
	return strings.Join(out, "; ")
}

// expectedEntries states, per operation kind, which entries a successful
// operation reports.
func expectedEntries(w *world.World, op *world.Op, fresh []*world.RawEntry) string {
	one := func(kind, ref string) string {
		if len(fresh) != 1 {
			return fmt.Sprintf("it should append exactly one %s entry, appended %d", kind, len(fresh))
		}
		if fresh[0].Kind != kind {
			return "the appended entry has kind " + fresh[0].Kind
		}
		if ref != "" && fresh[0].Ref != ref {
			return fmt.Sprintf("the appended entry is for %q, not %q", fresh[0].Ref, ref)
		}
		return ""
	}
	switch op.Kind {
	case "push", "fix", "pushNoNumber":
		if why := one("reference", op.Ref); why != "" {
			return why
		}
		if ct, ok := w.Commits[op.ID]; ok && fresh[0].Target != ct.ID {
			return "the appended entry records a different target"
		}
	case "record", "recordNoNumber":
		return one("reference", op.Ref)
	case "annotate", "annotateNoNumber":
		if why := one("annotation", ""); why != "" {
			return why
		}
		if fresh[0].Skip != op.Skip {
			return "the annotation's skip flag differs"
		}
		if len(fresh[0].Targets) != len(op.Targets) {
			return "the annotation names a different number of entries"
		}
	case "propagation":
		return one("propagation", op.Ref)
	case "stage":
		return one("reference", stagingRef)
	case "approve":
		return one("reference", attRef)
	case "discard", "restart", "cachePopulate", "cacheDelete", "verify":
		if len(fresh) != 0 {
			return "it should append nothing"
		}
	case "autoskip":
		if len(fresh) > 1 || (len(fresh) == 1 && (fresh[0].Kind != "annotation" || !fresh[0].Skip)) {
			return "it may append at most one skip annotation"
		}
	case "apply":
		if len(fresh) == 0 {
			return "it should append a policy entry"
		}
		if last := fresh[len(fresh)-1]; last.Kind != "reference" || last.Ref != policyRef {
			return "its last entry is not the policy entry"
		}
		for _, e := range fresh[:len(fresh)-1] {
			if e.Ref != stagingRef {
				return "it appended an entry for " + e.Ref
			}
		}
	case "reconcileStaging":
		for _, e := range fresh {
			if e.Ref != stagingRef {
				return "it appended an entry for " + e.Ref
			}
		}
	}
	return ""
}

func execLegacyPush(w *world.World, op *world.Op) sched.Outcome {
	a := w.Actors[op.Actor]
	out := a.Proc.RunOp(op.ID, func() error {
		parent, _ := w.St.GetRef(op.Ref)
		parents := []string{}
		if parent != "" {
			parents = append(parents, parent)
		}
		ct, err := w.MakeCommit(op.ID, parents, op.Files, op.CommitKey, fmt.Sprintf("commit %d", op.ID))
		if err != nil {
			return err
		}
		w.St.SetRef(op.Ref, ct.ID)
		legacy := world.Op{ID: op.ID, Kind: "recordNoNumber", Actor: op.Actor, Ref: op.Ref}
		_ = legacy
		return world.RecordEntryNoNumber(a.H, op.Ref, ct.ID)
	})
	w.SyncTruth(op.ID, op.Actor, -1, nil)
	return out
}
