package props

import (
	"fmt"
	"strings"

	"github.com/gittuf/gittuf/verifsim/core"
	"github.com/gittuf/gittuf/verifsim/world"
)

// C11 — global rules add constraints; they never replace or weaken delegation
// rules.
type c11 struct{}

func init() {
	core.Register(c11{})
	core.TierTable["C11"] = map[string]core.TierCfg{"quick": {Runs: 20000, BudgetS: 75}, "thorough": {Runs: 800000, BudgetS: 1200}}
}

func (c11) ID() string    { return "C11" }
func (c11) Level() string { return "exploration" }
func (c11) Rule() string {
	return "A case is a C01-style seeded history whose policy also declares 1-2 global rules (threshold k in 1..3 over patterns that match the reference under verification, another reference, or everything; block-force-pushes over main or all branches), with force pushes (targets that do not descend from the previous state) and policy edits that add, change or remove global rules. The identical operation list is executed twice in the same process — once as generated (P+G) and once with every global rule stripped from every policy state (P) — which exact replay makes comparable. Oracles: (i) the model's direct rule under P+G (a change failing a matching global rule must be rejected even on an unprotected namespace; authorised-and-compliant histories must be accepted); (ii) monotonicity: a verification that accepts under P+G must accept under P. Distinct = distinct (policy shape incl. global rules, entry pattern, both verdict vectors); non-trivial = a global rule matched at least one verified entry and at least 2 entries exist on a verified reference. Network slice (workers 0-2, every 40th of their cases; real git): a controller repository whose root declares one of {nothing, threshold 2 on main, block-force-pushes on main, threshold 2 on another branch} and a network repository that follows it and whose own root declares one of {nothing, an unrelated block-force-pushes rule, threshold 1 or 2 on main, block-force-pushes on main}; the controller's root is brought in by gittuf's own propagation; 1-4 pushes to main (one signer, signer plus approval, history rewrite), optionally one before the propagation; oracle: full verification rejects exactly when some push fails a matching global rule of either root in force at that push."
}
func (c11) Components() map[string]string {
	return map[string]string{"internal/policy verifier (global rules, exhaustive verifier)": "real", "pkg/rsl": "real", "gitstore.Storer": "stub (SimStore)", "network slice: experimental/gittuf propagation, internal/propagation, pkg/gitinterface, git 2.39": "real"}
}
func (c11) Assumptions() []string {
	return []string{"authenticated principals for a global threshold = distinct principals defined anywhere in the policy state in force who signed the entry or the approval bound to the exact change", "controller-declared global rules are exercised only in the real-git network slice (a controller's root reaches a repository by cloning and propagation)"}
}

func stripGlobal(p *world.PolicySpec) *world.PolicySpec {
	n := p.Clone()
	n.GlobalRules = nil
	return n
}

func (d c11) Generate(r *core.Rand, tier string, idx uint64) *core.Case {
	if c11IsNetCase(idx) {
		return d.generateNet(r, tier, idx)
	}
	c := &core.Case{Property: "C11", Engine: "simstore", Config: map[string]int{}, Flags: map[string]bool{}}
	cfg := drawPWCfg(r, tier)
	cfg.globalRules = false // drawn here instead
	cfg.propagation = false
	cfg.revoke = r.Chance(0.15)
	g := &pwGen{r: r, cfg: cfg, b: &opBuilder{}}
	g.globalGen = func() []world.GlobalRuleSpec {
		out := []world.GlobalRuleSpec{}
		n := r.Range(1, 2)
		for i := 0; i < n; i++ {
			switch r.Intn(5) {
			case 0:
				out = append(out, world.GlobalRuleSpec{Name: fmt.Sprintf("thr-docs-%d", i), Kind: "threshold", Patterns: []string{"git:refs/heads/docs"}, Threshold: r.Range(1, 3)})
			case 1:
				out = append(out, world.GlobalRuleSpec{Name: fmt.Sprintf("thr-branches-%d", i), Kind: "threshold", Patterns: []string{"git:refs/heads/*"}, Threshold: r.Range(1, 3)})
			case 2:
				out = append(out, world.GlobalRuleSpec{Name: fmt.Sprintf("thr-main-%d", i), Kind: "threshold", Patterns: []string{"git:" + mainRef}, Threshold: r.Range(1, 2)})
			case 3:
				out = append(out, world.GlobalRuleSpec{Name: fmt.Sprintf("noforce-main-%d", i), Kind: "block-force-pushes", Patterns: []string{"git:" + mainRef}})
			case 4:
				out = append(out, world.GlobalRuleSpec{Name: fmt.Sprintf("noforce-all-%d", i), Kind: "block-force-pushes", Patterns: []string{"git:refs/heads/*"}})
			}
		}
		return out
	}
	g.forcePushes = true
	g.propagationByMembers = true
	g.cfg.propagation = r.Chance(0.35)
	g.generate()
	c.Ops = g.b.ops
	c.Config["nDev"] = cfg.nDev
	return c
}

func (d c11) Execute(c *core.Case) *core.Result {
	if c.Engine == "git" {
		return d.executeNet(c)
	}
	res := &core.Result{}
	keys := pwKeys(c.Config["nDev"])
	refs := []string{mainRef, relRef, openRef, main2Ref}
	withG := runPolicyCase(c, keys, nil, refs, nil)
	without := runPolicyCase(c, keys, stripGlobal, refs, nil)
	for _, r := range []*pwRun{withG, without} {
		if r.Harness != "" {
			res.HarnessErr = r.Harness
			return res
		}
		if r.Panic != "" {
			res.Violate("C11", "panic", r.Panic, 0)
			return res
		}
	}
	// (i) direct rule under P+G
	matched := false
	for _, rec := range withG.Recs {
		op := rec.Op
		// expectation must be computed on the log as it was when the verification ran
		lg := truncatedLog(withG, rec.LogLen)
		exp, why, feats := expectFor(lg, op.Ref, modeOf(&op), rec.FromPos)
		for _, f := range feats {
			if f == "global-rule-unmet" {
				matched = true
			}
		}
		switch exp {
		case mustReject:
			res.Stat("verdicts_must_reject", 1)
			if rec.Verdict.Class == "accept" {
				res.Violate("C11", "false-accept", fmt.Sprintf("%s verification of %s succeeded under P+G although %s", modeOf(&op), op.Ref, why), op.ID, append(feats, "mode="+modeOf(&op))...)
			}
		case mustAccept:
			res.Stat("verdicts_must_accept", 1)
			if rec.Verdict.Class != "accept" {
				res.Violate("C11", "false-reject", fmt.Sprintf("%s verification of %s was rejected under P+G (%s) although %s and every matching global rule is met", modeOf(&op), op.Ref, rec.Verdict.Err, why), op.ID, "mode="+modeOf(&op))
			}
		default:
			res.Stat("verdicts_unspecified", 1)
		}
	}
	// (ii) monotonicity: accept under P+G => accept under P
	byID := map[int]vrec{}
	for _, rec := range without.Recs {
		byID[rec.Op.ID] = rec
	}
	vecG, vecP := []string{}, []string{}
	for _, rec := range withG.Recs {
		o, ok := byID[rec.Op.ID]
		if !ok {
			continue
		}
		vecG = append(vecG, rec.Verdict.Class)
		vecP = append(vecP, o.Verdict.Class)
		res.Stat("monotonicity_pairs", 1)
		if rec.Verdict.Class == "accept" && o.Verdict.Class != "accept" {
			res.Violate("C11", "non-monotone", fmt.Sprintf("%s verification of %s accepts with the global rules declared but is rejected (%s: %s) by the delegation rules alone — declaring a global rule legitimised the change", modeOf(&rec.Op), rec.Op.Ref, o.Verdict.Class, o.Verdict.Err), rec.Op.ID, "mode="+modeOf(&rec.Op))
		}
	}
	if hasGlobalMatch(withG) {
		matched = true
	}
	pattern := entryPattern(withG)
	res.Steps = len(c.Ops) * 2
	res.Digest = core.HashStrings(strings.Join(pattern, ","), strings.Join(vecG, ","), strings.Join(vecP, ","))
	res.StateKey = res.Digest
	res.Nontrivial = matched && len(withG.W.Entries) >= 4
	res.Stat("probe:global_rule_rejected_a_change", boolInt(strings.Contains(strings.Join(pattern, ","), ":G")))
	res.Stat("probe:force_push_generated", boolInt(forcePushed(withG)))
	res.Sample = map[string]any{"ops": describeOps(c.Ops), "entries(P+G)": pattern, "verdicts(P+G)": vecG, "verdicts(P)": vecP}
	return res
}
