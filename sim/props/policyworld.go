package props

import (
	"fmt"

	"github.com/gittuf/gittuf/verifsim/core"
	"github.com/gittuf/gittuf/verifsim/model"
	"github.com/gittuf/gittuf/verifsim/world"
)

// pwCfg are the swarm-style switches of a generated policy world.
type pwCfg struct {
	nDev        int
	maxThr      int
	delegDepth  int  // 0..2
	unauth      bool // pushes by de-authorised / never-authorised / unknown / no key
	revoke      bool // skip annotations and fix pushes
	approvals   bool
	policyEdits bool
	globalRules bool
	propagation bool // propagation entries on protected refs
	nOps        int
	verifyMid   bool
	persons     bool // developers are persons owning two keys (d and secondKeyOf(d)) instead of bare keys
}

// secondKeyOf is the second key of developer d when developers are persons; no
// actor is configured with it, it only signs approvals.
func secondKeyOf(d int) int { return 20 + d }

func drawPWCfg(r *core.Rand, tier string) pwCfg {
	c := pwCfg{nDev: r.Range(2, 4), maxThr: r.Range(1, 3), delegDepth: r.Weighted([]int{5, 3, 2}), nOps: r.Range(3, 14)}
	if tier == "thorough" {
		c.nOps = r.Range(3, 25)
	}
	c.unauth = r.Chance(0.6)
	c.revoke = r.Chance(0.3)
	c.approvals = r.Chance(0.6)
	c.policyEdits = r.Chance(0.5)
	c.verifyMid = r.Chance(0.5)
	c.persons = r.Chance(0.3)
	return c
}

const outsiderKey = 7
const unknownKey = 9

// pwGen generates the operations of a policy world.
type pwGen struct {
	r      *core.Rand
	cfg    pwCfg
	b      *opBuilder
	pol    *world.PolicySpec
	lastOp map[string]int // ref -> op id of the latest recorded entry (generator's belief)
	pushes []int          // op ids that recorded a reference entry for a user ref
	refs   []string

	globalGen   func() []world.GlobalRuleSpec // C11: draws the policy's global rules
	forcePushes bool
	// propagationByMembers: propagation entries bring a new commit and are recorded by somebody the
	// rule trusts (C11: what matters there is the entry as previous state, not who may record it)
	propagationByMembers bool
	refOps               map[string][]int // ref -> ops that recorded an entry for it, oldest first
}

// pspec / pid: developer d as a principal of the generated policies.
func (g *pwGen) pspec(d int) world.PrincipalSpec {
	if g.cfg.persons {
		return world.PrincipalSpec{ID: fmt.Sprintf("person-%d", d), Keys: []int{d, secondKeyOf(d)}, Person: true}
	}
	return world.KeyPrincipal(d)
}

func (g *pwGen) pid(d int) string { return g.pspec(d).ID }

func devList(n int) []int {
	out := []int{}
	for i := 1; i <= n; i++ {
		out = append(out, i)
	}
	return out
}

func subset(r *core.Rand, xs []int, k int) []int {
	p := r.Perm(len(xs))
	out := []int{}
	for i := 0; i < k && i < len(p); i++ {
		out = append(out, xs[p[i]])
	}
	return out
}

func (g *pwGen) initialPolicy() *world.PolicySpec {
	r := g.r
	devs := devList(g.cfg.nDev)
	thr := r.Range(1, g.cfg.maxThr)
	if thr > len(devs) {
		thr = len(devs)
	}
	nP := r.Range(thr, len(devs))
	members := subset(r, devs, nP)
	ps := []world.PrincipalSpec{}
	ids := []string{}
	for _, d := range devs { // every dev is defined as a principal; rules pick members
		ps = append(ps, g.pspec(d))
	}
	for _, m := range members {
		ids = append(ids, g.pid(m))
	}
	pol := &world.PolicySpec{
		RootVersion: 1, RootKeys: []int{0}, RootThreshold: 1, TargetsKeys: []int{0}, TargetsThreshold: 1, RootSigners: []int{0},
		Files: map[string]*world.RuleFileSpec{"targets": {Version: 1, Principals: ps, Signers: []int{0}}},
	}
	t := pol.Files["targets"]
	t.Rules = append(t.Rules, world.RuleSpec{Name: "protect-main", Patterns: []string{"git:" + mainRef}, Principals: ids, Threshold: thr})
	if r.Chance(0.5) {
		// a second protected namespace by prefix pattern
		m2 := subset(r, devs, r.Range(1, len(devs)))
		ids2 := []string{}
		for _, m := range m2 {
			ids2 = append(ids2, g.pid(m))
		}
		t.Rules = append(t.Rules, world.RuleSpec{Name: "protect-release", Patterns: []string{"git:refs/heads/rel*"}, Principals: ids2, Threshold: 1})
	}
	if g.cfg.delegDepth >= 1 {
		// protect-main delegates to a rule file of the same name, signed by a threshold of its principals
		del := &world.RuleFileSpec{Version: 1, Signers: members[:thr]}
		del.Principals = []world.PrincipalSpec{world.KeyPrincipal(outsiderKey), world.KeyPrincipal(outsiderKey + 1)}
		del.Rules = []world.RuleSpec{{Name: "main-delegates", Patterns: []string{"git:" + mainRef}, Principals: []string{world.GetKey(outsiderKey).ID}, Threshold: 1}}
		pol.Files["protect-main"] = del
		if g.cfg.delegDepth >= 2 {
			d2 := &world.RuleFileSpec{Version: 1, Signers: []int{outsiderKey}}
			d2.Principals = []world.PrincipalSpec{world.KeyPrincipal(outsiderKey + 1)}
			d2.Rules = []world.RuleSpec{{Name: "main-subdelegates", Patterns: []string{"git:refs/heads/*"}, Principals: []string{world.GetKey(outsiderKey + 1).ID}, Threshold: 1}}
			pol.Files["main-delegates"] = d2
		}
	}
	if g.globalGen != nil {
		pol.GlobalRules = g.globalGen()
	} else if g.cfg.globalRules {
		switch r.Intn(3) {
		case 0: // unrelated namespace
			pol.GlobalRules = append(pol.GlobalRules, world.GlobalRuleSpec{Name: "two-for-docs", Kind: "threshold", Patterns: []string{"git:refs/heads/docs"}, Threshold: 2})
		case 1:
			pol.GlobalRules = append(pol.GlobalRules, world.GlobalRuleSpec{Name: "one-for-all", Kind: "threshold", Patterns: []string{"git:refs/heads/*"}, Threshold: r.Range(1, 2)})
		case 2:
			pol.GlobalRules = append(pol.GlobalRules, world.GlobalRuleSpec{Name: "no-force-main", Kind: "block-force-pushes", Patterns: []string{"git:" + mainRef}})
		}
	}
	return pol
}

func (g *pwGen) editPolicy() *world.PolicySpec {
	r := g.r
	p := g.pol.Clone()
	t := p.Files["targets"]
	t.Version++
	rule := &t.Rules[0]
	devs := devList(g.cfg.nDev)
	k := r.Intn(4)
	if g.globalGen != nil && r.Chance(0.5) {
		k = 4
	}
	switch k {
	case 4: // declare, change or remove global rules
		if r.Chance(0.3) {
			p.GlobalRules = nil
		} else {
			p.GlobalRules = g.globalGen()
		}
		p.RootVersion++
	case 0: // remove a principal (de-authorise), keeping the threshold meetable
		if len(rule.Principals) > rule.Threshold {
			i := r.Intn(len(rule.Principals))
			rule.Principals = append(append([]string{}, rule.Principals[:i]...), rule.Principals[i+1:]...)
		}
	case 1: // add a principal
		d := devs[r.Intn(len(devs))]
		id := g.pid(d)
		has := false
		for _, x := range rule.Principals {
			if x == id {
				has = true
			}
		}
		if !has {
			rule.Principals = append(append([]string{}, rule.Principals...), id)
		}
	case 2: // change threshold
		nt := r.Range(1, g.cfg.maxThr)
		if nt <= len(rule.Principals) {
			rule.Threshold = nt
		}
	case 3: // bump root too
		p.RootVersion++
	}
	// a delegated file must stay signed by a threshold of the (possibly changed) delegating rule's principals
	if del, ok := p.Files["protect-main"]; ok {
		signers := []int{}
		for _, id := range rule.Principals {
			for _, d := range devs {
				if g.pid(d) == id && len(signers) < rule.Threshold {
					signers = append(signers, d)
				}
			}
		}
		del.Signers = signers
	}
	return p
}

func (g *pwGen) membersOf(ref string) []int {
	out := []int{}
	for _, v := range model.Walk(g.pol, "git:"+ref) {
		for _, p := range v.Principals {
			out = append(out, p.Keys[0])
		}
		break
	}
	return out
}

// actorForKey maps a key index to the actor that owns it (actor i owns key i;
// the outsider actor owns outsiderKey).
func (g *pwGen) actorForKey(k int) int {
	if k == outsiderKey {
		return g.cfg.nDev + 1
	}
	if k == outsiderKey+1 {
		return g.cfg.nDev + 2
	}
	return k
}

func (g *pwGen) nActors() int { return g.cfg.nDev + 3 }

// authorisedPush appends the operations of a push that meets the first rule
// consulted for ref under the generator's current policy.
func (g *pwGen) authorisedPush(ref string, i int) {
	r := g.r
	vs := model.Walk(g.pol, "git:"+ref)
	if len(vs) == 0 {
		a := r.Range(1, g.cfg.nDev)
		id := g.b.add(world.Op{Kind: "push", Actor: a, Ref: ref, Files: fileFor(r, i), CommitKey: a, EntryKey: -2})
		g.pushes = append(g.pushes, id)
		g.lastOp[ref] = id
		return
	}
	v := vs[r.Intn(len(vs))]
	keys := []int{}
	for _, p := range v.Principals {
		keys = append(keys, p.Keys[0])
	}
	if len(keys) < v.Threshold {
		return
	}
	signers := subset(r, keys, v.Threshold)
	pusher := signers[0]
	if v.Threshold == 1 || !g.cfg.approvals {
		if v.Threshold > 1 {
			return // cannot be met without approvals
		}
		op := world.Op{Kind: "push", Actor: g.actorForKey(pusher), Ref: ref, Files: fileFor(r, i), CommitKey: pusher, EntryKey: -2}
		if g.forcePushes && r.Chance(0.25) {
			op.Base = "root" // history rewrite: the new target does not descend from the previous one
			op.Files = map[string]string{"rewritten.txt": fmt.Sprintf("rewrite-%d", i)}
			if older := g.refOps[ref]; len(older) >= 2 && r.Chance(0.5) {
				// a rewind: back to an earlier recorded state of the branch, then new work on top of it
				op.Base = fmt.Sprintf("entry:%d", older[r.Intn(len(older)-1)])
			}
		}
		id := g.b.add(op)
		g.pushes = append(g.pushes, id)
		g.lastOp[ref] = id
		g.refOps[ref] = append(g.refOps[ref], id)
		return
	}
	c := g.b.add(world.Op{Kind: "commit", Actor: g.actorForKey(pusher), Ref: ref, Files: fileFor(r, i), CommitKey: pusher})
	for _, s := range signers[1:] {
		k := s
		if g.cfg.persons && s >= 1 && s <= g.cfg.nDev && r.Chance(0.4) {
			k = secondKeyOf(s) // the person approves with their other key
		}
		g.b.add(world.Op{Kind: "approve", Actor: g.actorForKey(s), Approve: &world.ApproveSpec{Ref: ref, FromOp: g.lastOp[ref], ToOp: c, Signers: []int{k}}})
	}
	id := g.b.add(world.Op{Kind: "record", Actor: g.actorForKey(pusher), Ref: ref, Base: fmt.Sprintf("op:%d", c), EntryKey: -2})
	g.pushes = append(g.pushes, id)
	g.lastOp[ref] = id
}

func (g *pwGen) unauthorisedPush(ref string, i int) int {
	r := g.r
	var op world.Op
	if g.cfg.persons && g.cfg.approvals && r.Chance(0.4) {
		// one person, two keys: the same person signs the entry and the authorization with
		// both keys (or the authorization with both keys while an outsider records). That is
		// one principal, whatever the number of keys.
		for _, v := range model.Walk(g.pol, "git:"+ref) {
			if v.Threshold != 2 || len(v.Principals) == 0 {
				continue
			}
			x := v.Principals[r.Intn(len(v.Principals))]
			if !x.Person || x.Keys[0] < 1 || x.Keys[0] > g.cfg.nDev {
				continue
			}
			kx := x.Keys[0]
			c := g.b.add(world.Op{Kind: "commit", Actor: kx, Ref: ref, Files: fileFor(r, i), CommitKey: kx})
			g.b.add(world.Op{Kind: "approve", Actor: kx, Approve: &world.ApproveSpec{Ref: ref, FromOp: g.lastOp[ref], ToOp: c, Signers: []int{kx, secondKeyOf(kx)}}})
			rec := world.Op{Kind: "record", Actor: kx, Ref: ref, Base: fmt.Sprintf("op:%d", c), EntryKey: -2}
			if r.Chance(0.5) {
				rec.Actor, rec.EntryKey = g.cfg.nDev+3-1, unknownKey
			}
			id := g.b.add(rec)
			g.pushes = append(g.pushes, id)
			g.lastOp[ref] = id
			return id
		}
	}
	if g.lastOp[ref] != 0 && r.Chance(0.12) {
		// the current tip recorded once more, by someone who may not: a different entry with the same target
		id := g.b.add(world.Op{Kind: "record", Actor: g.cfg.nDev + 3 - 1, Ref: ref, Base: "", EntryKey: unknownKey})
		g.pushes = append(g.pushes, id)
		g.lastOp[ref] = id
		return id
	}
	switch r.Intn(4) {
	case 0: // never-authorised actor
		op = world.Op{Kind: "push", Actor: g.cfg.nDev + 3 - 1, Ref: ref, Files: fileFor(r, i), CommitKey: -1, EntryKey: unknownKey}
	case 1: // unsigned
		a := r.Range(1, g.cfg.nDev)
		op = world.Op{Kind: "push", Actor: a, Ref: ref, Files: fileFor(r, i), CommitKey: a, EntryKey: -1}
	case 2: // root key holder (not in the rule)
		op = world.Op{Kind: "push", Actor: 0, Ref: ref, Files: fileFor(r, i), CommitKey: 0, EntryKey: -2}
	default: // a dev not (or no longer) in the rule, if any
		members := map[int]bool{}
		for _, v := range model.Walk(g.pol, "git:"+ref) {
			for _, p := range v.Principals {
				for _, k := range p.Keys {
					members[k] = true
				}
			}
		}
		cand := -1
		for _, d := range devList(g.cfg.nDev) {
			if !members[d] {
				cand = d
			}
		}
		if cand < 0 {
			op = world.Op{Kind: "push", Actor: 0, Ref: ref, Files: fileFor(r, i), CommitKey: 0, EntryKey: -2}
		} else {
			op = world.Op{Kind: "push", Actor: cand, Ref: ref, Files: fileFor(r, i), CommitKey: cand, EntryKey: -2}
		}
	}
	id := g.b.add(op)
	g.pushes = append(g.pushes, id)
	g.lastOp[ref] = id
	return id
}

// generate emits bootstrap + nOps history operations.
func (g *pwGen) generate() {
	r := g.r
	g.lastOp = map[string]int{}
	g.refOps = map[string][]int{}
	g.refs = []string{mainRef, mainRef, mainRef, relRef, relRef, openRef, openRef, main2Ref}
	g.pol = g.initialPolicy()
	g.b.add(world.Op{Kind: "stage", Actor: 0, Policy: g.pol})
	policyOps := []int{g.b.add(world.Op{Kind: "apply", Actor: 0})}
	for i := 0; i < g.cfg.nOps; i++ {
		ref := g.refs[r.Intn(len(g.refs))]
		w := []int{10, 0, 0, 0, 0, 2, 0}
		if g.cfg.revoke && g.cfg.unauth && g.lastOp[ref] != 0 {
			w[6] = 2
		}
		if g.cfg.unauth {
			w[1] = 3
		}
		if g.cfg.revoke && len(g.pushes) > 0 {
			w[2] = 3
		}
		if g.cfg.policyEdits {
			w[3] = 2
		}
		if g.cfg.propagation {
			w[4] = 2
		}
		switch r.Weighted(w) {
		case 0:
			g.authorisedPush(ref, i)
		case 1:
			g.unauthorisedPush(ref, i)
		case 2:
			k := r.Range(1, 2)
			ts := []int{}
			for j := 0; j < k; j++ {
				ts = append(ts, g.pushes[r.Intn(len(g.pushes))])
			}
			if r.Chance(0.12) {
				// annotations may name any entry, a policy entry too; that never changes which policy is in force
				ts = append(ts, policyOps[r.Intn(len(policyOps))])
			}
			g.b.add(world.Op{Kind: "annotate", Actor: r.Range(0, g.cfg.nDev), Targets: ts, Skip: r.Chance(0.8), Msg: "revoke", EntryKey: -2})
		case 3:
			g.pol = g.editPolicy()
			g.b.add(world.Op{Kind: "stage", Actor: 0, Policy: g.pol})
			policyOps = append(policyOps, g.b.add(world.Op{Kind: "apply", Actor: 0}))
		case 4:
			if g.lastOp[ref] != 0 && g.propagationByMembers {
				if m := g.membersOf(ref); len(m) > 0 && model.Walk(g.pol, "git:"+ref)[0].Threshold == 1 {
					k := m[r.Intn(len(m))]
					cm := g.b.add(world.Op{Kind: "commit", Actor: g.actorForKey(k), Ref: ref, Files: fileFor(r, i+300), CommitKey: k})
					id := g.b.add(world.Op{Kind: "propagation", Actor: g.actorForKey(k), Ref: ref, Base: fmt.Sprintf("op:%d", cm), Upstream: "https://up.example/repo", EntryKey: -2})
					g.lastOp[ref] = id
					g.pushes = append(g.pushes, id)
					g.refOps[ref] = append(g.refOps[ref], id)
				}
			} else if g.lastOp[ref] != 0 {
				a := r.Range(0, g.cfg.nDev+1)
				k := a
				if a > g.cfg.nDev {
					k = outsiderKey
				}
				id := g.b.add(world.Op{Kind: "propagation", Actor: a, Ref: ref, Base: "", Upstream: "https://up.example/repo", EntryKey: k})
				g.lastOp[ref] = id
				g.pushes = append(g.pushes, id)
			}
		case 6: // an incident: unauthorised push, revocation, tree-same fix by someone
			good := g.lastOp[ref]
			bad := g.unauthorisedPush(ref, i)
			badOp := g.b.ops[bad-1]
			g.b.add(world.Op{Kind: "annotate", Actor: r.Range(0, g.cfg.nDev), Targets: []int{bad}, Skip: true, Msg: "revoke", EntryKey: -2})
			removed := -1
			if g.cfg.policyEdits && r.Chance(0.5) {
				// a policy change lands between the violation and its fix: the
				// rule for this ref is handed to a single developer, everybody
				// else who was trusted for it is de-authorised
				if vs := model.Walk(g.pol, "git:"+ref); len(vs) > 0 && len(vs[0].Principals) >= 2 && ref == mainRef {
					np := g.pol.Clone()
					np.Files["targets"].Version++
					rule := &np.Files["targets"].Rules[0]
					keep := vs[0].Principals[r.Intn(len(vs[0].Principals))]
					for _, p := range vs[0].Principals {
						if p.ID != keep.ID {
							removed = p.Keys[0]
						}
					}
					rule.Principals = []string{keep.ID}
					rule.Threshold = 1
					if del, ok := np.Files["protect-main"]; ok {
						del.Signers = []int{keep.Keys[0]}
					}
					g.pol = np
				} else {
					g.pol = g.editPolicy()
				}
				g.b.add(world.Op{Kind: "stage", Actor: 0, Policy: g.pol})
				g.b.add(world.Op{Kind: "apply", Actor: 0})
			}
			if vs := model.Walk(g.pol, "git:"+ref); good != 0 && g.cfg.approvals && len(vs) > 0 && vs[0].Threshold == 2 && len(vs[0].Principals) >= 2 && r.Chance(0.5) {
				// the next change is prepared and approved while the incident is still open (the approval is
				// recorded between the violation and its fix); the fix goes back to the good commit itself,
				// then the approved change is recorded
				s1, s2 := vs[0].Principals[0].Keys[0], vs[0].Principals[1].Keys[0]
				cx := g.b.add(world.Op{Kind: "commit", Actor: g.actorForKey(s1), Ref: ref, Base: fmt.Sprintf("entry:%d", good), Files: fileFor(r, i+200), CommitKey: s1})
				g.b.add(world.Op{Kind: "approve", Actor: g.actorForKey(s2), Approve: &world.ApproveSpec{Ref: ref, FromOp: good, ToOp: cx, Signers: []int{s2}}})
				// the fix (from the violating state back to the good tree) is approved by the second developer too
				g.b.add(world.Op{Kind: "approve", Actor: g.actorForKey(s2), Approve: &world.ApproveSpec{Ref: ref, FromOp: bad, ToOp: good, Signers: []int{s2}}})
				fx := g.b.add(world.Op{Kind: "record", Actor: g.actorForKey(s1), Ref: ref, Base: fmt.Sprintf("entry:%d", good), EntryKey: -2})
				g.pushes = append(g.pushes, fx)
				id := g.b.add(world.Op{Kind: "record", Actor: g.actorForKey(s1), Ref: ref, Base: fmt.Sprintf("op:%d", cx), EntryKey: -2})
				g.pushes = append(g.pushes, id)
				g.lastOp[ref] = id
				continue
			}
			fixer, fixKey := badOp.Actor, badOp.EntryKey
			if r.Chance(0.5) {
				if m := g.membersOf(ref); len(m) > 0 {
					fixer, fixKey = g.actorForKey(m[0]), -2
				}
			}
			ck := fixKey
			if ck < 0 {
				ck = -1
			}
			id := g.b.add(world.Op{Kind: "fix", Actor: fixer, Ref: ref, TreeOf: good, CommitKey: ck, EntryKey: fixKey})
			g.pushes = append(g.pushes, id)
			g.lastOp[ref] = id
			if removed > 0 && removed <= g.cfg.nDev && r.Chance(0.7) {
				// the developer de-authorised in between pushes after the fix
				id := g.b.add(world.Op{Kind: "push", Actor: removed, Ref: ref, Files: fileFor(r, i+100), CommitKey: removed, EntryKey: -2})
				g.pushes = append(g.pushes, id)
				g.lastOp[ref] = id
			}
		case 5:
			if g.cfg.verifyMid {
				g.b.add(world.Op{Kind: "verify", Actor: r.Range(0, g.cfg.nDev), Ref: ref, Mode: []string{"full", "latest"}[r.Intn(2)]})
			}
		}
	}
}
