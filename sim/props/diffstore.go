package props

import (
	"fmt"
	"sort"
	"strings"
	"time"

	"github.com/gittuf/gittuf/pkg/githash"
	"github.com/gittuf/gittuf/pkg/gitinterface"
	"github.com/gittuf/gittuf/pkg/gitstore"
	"github.com/gittuf/gittuf/verifsim/core"
	"github.com/gittuf/gittuf/verifsim/gitx"
	"github.com/gittuf/gittuf/verifsim/sched"
	"github.com/gittuf/gittuf/verifsim/simstore"
	"github.com/gittuf/gittuf/verifsim/world"
)

// DiffStore validates the stub: the same seeded sequence of gitstore.Storer
// calls is issued to SimStore and to a real repository through gitinterface;
// every return value — including object ids — must agree. A disagreement is a
// harness defect (exit 2), never a VIOLATION.
func DiffStore(seed uint64, n int) int {
	bad := 0
	calls := 0
	for i := 0; i < n; i++ {
		c, msgs := diffStoreOnce(core.SeedFor(seed, uint64(i)))
		calls += c
		for _, m := range msgs {
			bad++
			if bad <= 10 {
				fmt.Printf("diffstore: run %d: %s\n", i, m)
			}
		}
	}
	fmt.Printf("diffstore: %d sequences, %d compared calls, %d disagreements\n", n, calls, bad)
	if bad > 0 {
		return 2
	}
	return 0
}

func errClass(err error) string {
	if err == nil {
		return "ok"
	}
	if strings.Contains(err.Error(), "not found") && strings.Contains(err.Error(), "reference") {
		return "ref-not-found"
	}
	return "err"
}

func diffStoreOnce(seed uint64) (int, []string) {
	r := core.NewRand(seed)
	sc, err := gitx.NewScratch()
	if err != nil {
		return 0, []string{"scratch: " + err.Error()}
	}
	defer sc.Close()
	gitx.SetupProcessEnv(sc.Dir)
	gr, err := sc.Init("real", false)
	if err != nil {
		return 0, []string{err.Error()}
	}
	gi, err := gitinterface.LoadRepository(gr.Dir)
	if err != nil {
		return 0, []string{err.Error()}
	}
	st := simstore.New()
	env := sched.NewEnv()
	env.RecordEvents = false
	p := env.NewProc("d")
	h := &sched.Handle{St: st, P: p, Name: "sim"}
	p.BeginOp(1)
	var real, sim gitstore.Storer = gi, h
	msgs := []string{}
	calls := 0
	cmp := func(what string, a, b any, ea, eb error) {
		calls++
		if errClass(ea) != errClass(eb) {
			msgs = append(msgs, fmt.Sprintf("%s: error class real=%v sim=%v", what, ea, eb))
			return
		}
		if ea != nil {
			return
		}
		if fmt.Sprint(a) != fmt.Sprint(b) {
			msgs = append(msgs, fmt.Sprintf("%s: real=%v sim=%v", what, a, b))
		}
	}
	blobs := []githash.Hash{}
	trees := []githash.Hash{}
	commits := []githash.Hash{}
	refs := []string{"refs/heads/main", "refs/heads/x", "refs/gittuf/test"}
	names := []string{"a", "b", "dir/c", "dir/sub/d", "e f", "g"}
	tick := int64(0)
	for step := 0; step < 25 && len(msgs) == 0; step++ {
		tick++
		gi.VerifSetClock(timeAt(tick))
		st.Clock.T = timeAt(tick).Unix()
		switch r.Intn(12) {
		case 0:
			content := []byte(fmt.Sprintf("blob-%d", r.Intn(50)))
			a, ea := real.WriteBlob(content)
			b, eb := sim.WriteBlob(content)
			cmp("WriteBlob", a, b, ea, eb)
			if ea == nil {
				blobs = append(blobs, a)
			}
		case 1:
			if len(blobs) == 0 {
				continue
			}
			entries := []gitstore.TreeEntry{}
			used := map[string]bool{}
			for i := 0; i < r.Range(1, 4); i++ {
				nm := names[r.Intn(len(names))]
				conflict := used[nm]
				for u := range used {
					if strings.HasPrefix(u, nm+"/") || strings.HasPrefix(nm, u+"/") {
						conflict = true
					}
				}
				if conflict {
					continue
				}
				used[nm] = true
				entries = append(entries, gitstore.TreeEntry{Path: nm, ID: blobs[r.Intn(len(blobs))], Kind: gitstore.KindBlob})
			}
			if len(trees) > 0 && r.Chance(0.3) && !used["graft"] {
				entries = append(entries, gitstore.TreeEntry{Path: "graft", ID: trees[r.Intn(len(trees))], Kind: gitstore.KindSubtree})
			}
			a, ea := real.WriteTree(entries)
			b, eb := sim.WriteTree(entries)
			cmp("WriteTree", a, b, ea, eb)
			if ea == nil {
				trees = append(trees, a)
			}
		case 2, 3:
			if len(trees) == 0 {
				continue
			}
			ref := refs[r.Intn(len(refs))]
			tree := trees[r.Intn(len(trees))]
			msg := []string{"msg", "multi\nline", "trailing\n", "RSL Reference Entry\n\nref: x"}[r.Intn(4)]
			var a, b githash.Hash
			var ea, eb error
			if r.Chance(0.5) {
				a, ea = real.Commit(tree, ref, msg, false)
				b, eb = sim.Commit(tree, ref, msg, false)
				cmp("Commit", a, b, ea, eb)
			} else {
				pem := world.GetKey(1).PEM
				a, ea = real.CommitUsingSpecificKey(tree, ref, msg, pem)
				b, eb = sim.CommitUsingSpecificKey(tree, ref, msg, pem)
				cmp("CommitUsingSpecificKey", a, b, ea, eb)
			}
			if ea == nil {
				commits = append(commits, a)
			}
		case 4:
			ref := refs[r.Intn(len(refs))]
			a, ea := real.GetReference(ref)
			b, eb := sim.GetReference(ref)
			cmp("GetReference", a, b, ea, eb)
		case 5:
			if len(commits) == 0 {
				continue
			}
			cm := commits[r.Intn(len(commits))]
			a, ea := real.GetCommitMessage(cm)
			b, eb := sim.GetCommitMessage(cm)
			cmp("GetCommitMessage", a, b, ea, eb)
			a2, ea2 := real.GetCommitParentIDs(cm)
			b2, eb2 := sim.GetCommitParentIDs(cm)
			cmp("GetCommitParentIDs", a2, b2, ea2, eb2)
			a3, ea3 := real.GetCommitTreeID(cm)
			b3, eb3 := sim.GetCommitTreeID(cm)
			cmp("GetCommitTreeID", a3, b3, ea3, eb3)
			pa, sa, ea4 := real.GetObjectSignature(cm)
			pb, sb, eb4 := sim.GetObjectSignature(cm)
			cmp("GetObjectSignature.payload", string(pa), string(pb), ea4, eb4)
			cmp("GetObjectSignature.signature", string(sa), string(sb), ea4, eb4)
		case 6:
			if len(commits) < 2 {
				continue
			}
			x, y := commits[r.Intn(len(commits))], commits[r.Intn(len(commits))]
			a, ea := real.KnowsCommit(x, y)
			b, eb := sim.KnowsCommit(x, y)
			cmp("KnowsCommit", a, b, ea, eb)
			a2, ea2 := real.GetCommitsBetweenRange(x, y)
			b2, eb2 := sim.GetCommitsBetweenRange(x, y)
			cmp("GetCommitsBetweenRange", a2, b2, ea2, eb2)
			a3, ea3 := real.GetCommitsBetweenRange(x, nil)
			b3, eb3 := sim.GetCommitsBetweenRange(x, nil)
			cmp("GetCommitsBetweenRange(zero)", a3, b3, ea3, eb3)
		case 7:
			if len(commits) == 0 {
				continue
			}
			cm := commits[r.Intn(len(commits))]
			a, ea := real.GetFilePathsChangedByCommit(cm)
			b, eb := sim.GetFilePathsChangedByCommit(cm)
			sort.Strings(a)
			sort.Strings(b)
			cmp("GetFilePathsChangedByCommit", a, b, ea, eb)
		case 8:
			if len(trees) == 0 {
				continue
			}
			t := trees[r.Intn(len(trees))]
			a, ea := real.GetAllFilesInTree(t)
			b, eb := sim.GetAllFilesInTree(t)
			cmp("GetAllFilesInTree", sortedMap(a), sortedMap(b), ea, eb)
			a2, ea2 := real.GetEntriesInTree(t)
			b2, eb2 := sim.GetEntriesInTree(t)
			cmp("GetEntriesInTree", a2, b2, ea2, eb2)
			pth := names[r.Intn(len(names))]
			a3, ea3 := real.GetPathIDInTree(t, pth)
			b3, eb3 := sim.GetPathIDInTree(t, pth)
			cmp("GetPathIDInTree", a3, b3, ea3, eb3)
		case 9:
			if len(commits) == 0 {
				continue
			}
			ref := refs[r.Intn(len(refs))]
			cm := commits[r.Intn(len(commits))]
			ea := real.SetReference(ref, cm)
			eb := sim.SetReference(ref, cm)
			cmp("SetReference", nil, nil, ea, eb)
		case 10:
			if len(blobs) == 0 {
				continue
			}
			bl := blobs[r.Intn(len(blobs))]
			a, ea := real.ReadBlob(bl)
			b, eb := sim.ReadBlob(bl)
			cmp("ReadBlob", string(a), string(b), ea, eb)
			a2, ea2 := real.EmptyTree()
			b2, eb2 := sim.EmptyTree()
			cmp("EmptyTree", a2, b2, ea2, eb2)
		case 11:
			if len(commits) < 2 {
				continue
			}
			x, y := commits[r.Intn(len(commits))], commits[r.Intn(len(commits))]
			a, ea := real.GetMergeTree(x, y)
			b, eb := sim.GetMergeTree(x, y)
			// content-level merges inside one file are git's, not the stub's: compare only when both succeed or both fail
			cmp("GetMergeTree", a, b, ea, eb)
		}
	}
	return calls, msgs
}

func sortedMap(m map[string]githash.Hash) []string {
	out := []string{}
	for k, v := range m {
		out = append(out, k+"="+v.String())
	}
	sort.Strings(out)
	return out
}

func timeAt(tick int64) time.Time { return gitx.FixedTime.Add(time.Second * time.Duration(tick)) }
