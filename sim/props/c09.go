package props

import (
	"fmt"
	"strings"

	"github.com/gittuf/gittuf/verifsim/core"
	"github.com/gittuf/gittuf/verifsim/world"
)

// C09 — approvals count only for the exact change named, once per principal.
type c09 struct{}

func init() {
	core.Register(c09{})
	core.TierTable["C09"] = map[string]core.TierCfg{"quick": {Runs: 20000, BudgetS: 75}, "thorough": {Runs: 800000, BudgetS: 1200}}
}

func (c09) ID() string    { return "C09" }
func (c09) Level() string { return "exploration" }
func (c09) Rule() string {
	return "A case is a seeded history on a branch whose rule needs 2 or 3 of 4 persons (each with a key and a code-review identity) with a code-review app that is trusted, untrusted, or loses trust through a policy edit. For every change the seed decides who commits, who records, which authorizations are signed by which trusted/untrusted keys (including the recorder's own), which code-review approvals name which approvers/dismissed approvers and are signed by the app key or another key, whether an approval is recorded before or after the entry it targets, whether it targets the exact (ref, from, tree) or a stale/other change, and adversarial attestation writes: a validly signed statement for change X stored under the path of change Y, and an envelope for Y carrying signatures lifted from X's (both attestation kinds). Oracle: the model counts each principal once across entry signature, authorization signature and code-review identity, only from the attestation state preceding the entry and only for statements bound to exactly that change. Distinct = distinct (approval pattern per change, app trust, verdict vector); non-trivial = at least one change whose outcome depends on approvals (threshold not met by the recorder alone) was verified with a specified verdict."
}
func (c09) Components() map[string]string {
	return map[string]string{"internal/attestations (authorizations v02, github approvals)": "real", "internal/policy verifier (approver counting)": "real", "GitHub API": "stub (approvals are injected as attestations signed by the app key)", "gitstore.Storer": "stub (SimStore)"}
}
func (c09) Assumptions() []string {
	return []string{"one code-review app; approver and dismissed lists are disjoint", "tags are not generated"}
}

const appName = "review-app"
const appKey = 5

// a second code-review app with its own identity namespace; it is declared
// but (usually) not trusted
const app2Name = "legacy-app"
const app2Key = 8

func c09Policy(thr int, trusted bool) *world.PolicySpec {
	ps := []world.PrincipalSpec{}
	ids := []string{}
	for i := 1; i <= 4; i++ {
		p := world.PrincipalSpec{ID: fmt.Sprintf("person-%d", i), Keys: []int{i}, Person: true, Identities: map[string]string{appName: fmt.Sprintf("user-%d", i), app2Name: fmt.Sprintf("legacy-%d", i)}}
		ps = append(ps, p)
		ids = append(ids, p.ID)
	}
	return &world.PolicySpec{
		RootVersion: 1, RootKeys: []int{0}, RootThreshold: 1, TargetsKeys: []int{0}, TargetsThreshold: 1, RootSigners: []int{0},
		Apps: []world.AppSpec{{Name: appName, Keys: []int{appKey}, Trusted: trusted, Threshold: 1}, {Name: app2Name, Keys: []int{app2Key}, Trusted: false, Threshold: 1}},
		Files: map[string]*world.RuleFileSpec{"targets": {Version: 1, Principals: ps, Signers: []int{0},
			Rules: []world.RuleSpec{{Name: "protect-main", Patterns: []string{"git:" + mainRef}, Principals: ids[:3], Threshold: thr},
				{Name: "protect-tags", Patterns: []string{"git:refs/tags/*"}, Principals: ids[:3], Threshold: thr}}}},
	}
}

func (c09) Generate(r *core.Rand, tier string, idx uint64) *core.Case {
	c := &core.Case{Property: "C09", Engine: "simstore", Config: map[string]int{}, Flags: map[string]bool{}}
	b := &opBuilder{}
	thr := r.Range(2, 3)
	trusted := r.Chance(0.75)
	pol := c09Policy(thr, trusted)
	if r.Chance(0.3) {
		pol.Apps[1].Trusted = true // both apps trusted: identities must still be resolved per app
	}
	b.add(world.Op{Kind: "stage", Actor: 0, Policy: pol})
	b.add(world.Op{Kind: "apply", Actor: 0})
	// actors: 0 root, 1..4 persons (4 is defined but not in the rule), 5 app bot, 6 outsider
	lastEntry := 0
	prevCommit := 0
	nChanges := r.Range(1, 4)
	for ch := 0; ch < nChanges; ch++ {
		pusher := r.Range(1, 4)
		cm := b.add(world.Op{Kind: "commit", Actor: pusher, Ref: mainRef, Files: fileFor(r, ch), CommitKey: pusher})
		late := []world.Op{}
		if r.Chance(0.5) {
			// an honest, sufficient set of approvals by other rule members
			pusher = r.Range(1, 3)
			b.ops[len(b.ops)-1].Actor, b.ops[len(b.ops)-1].CommitKey = pusher, pusher
			others := []int{}
			for m := 1; m <= 3; m++ {
				if m != pusher {
					others = append(others, m)
				}
			}
			need := thr - 1
			for _, m := range others[:need] {
				if r.Chance(0.5) || !pol.Apps[0].Trusted {
					b.add(world.Op{Kind: "approve", Actor: m, Approve: &world.ApproveSpec{Ref: mainRef, FromOp: lastEntry, ToOp: cm, Signers: []int{m}}})
				} else {
					b.add(world.Op{Kind: "approve", Actor: 5, Approve: &world.ApproveSpec{Ref: mainRef, FromOp: lastEntry, ToOp: cm, App: appName, AppKey: appKey, Approvers: []string{fmt.Sprintf("user-%d", m)}}})
				}
			}
		}
		nA := r.Range(0, 4)
		for i := 0; i < nA; i++ {
			ap := &world.ApproveSpec{Ref: mainRef, FromOp: lastEntry, ToOp: cm}
			actor := r.Range(1, 4)
			switch r.Intn(9) {
			case 0, 1, 2: // authorization by a person (possibly the pusher, possibly person-4 who is not in the rule)
				ap.Signers = []int{actor}
			case 3: // authorization signed by an outsider key
				actor = 6
				ap.Signers = []int{outsiderKey}
			case 4, 5: // code review approval by the app
				actor = 5
				ap.App, ap.AppKey = appName, appKey
				if r.Chance(0.15) {
					ap.AppKey = outsiderKey // not the app's key
				}
				n := r.Range(1, 3)
				for j := 0; j < n; j++ {
					if r.Chance(0.25) {
						// a login that only means something in the other app's namespace
						ap.Approvers = append(ap.Approvers, fmt.Sprintf("legacy-%d", r.Range(1, 3)))
					} else {
						ap.Approvers = append(ap.Approvers, fmt.Sprintf("user-%d", r.Range(1, 5)))
					}
				}
				if r.Chance(0.3) {
					d := fmt.Sprintf("user-%d", r.Range(1, 4))
					keep := []string{}
					for _, a := range ap.Approvers {
						if a != d {
							keep = append(keep, a)
						}
					}
					ap.Approvers = keep
					ap.Dismissed = []string{d}
					if len(ap.Approvers) == 0 {
						ap.Approvers = nil
					}
				}
			case 6: // approval for a stale `from` (another change)
				ap.Signers = []int{actor}
				if prevCommit != 0 {
					ap.ToOp = prevCommit
				} else {
					ap.FromOp = cm // nonsense from: never matches
				}
			case 7: // misfiled: statement for another change X stored under this change's path
				ap.Misfile = true
				ap.StoreRef, ap.StoreFrom, ap.StoreTo = mainRef, lastEntry, cm
				// X differs from this change in exactly one component
				switch variant := r.Intn(3); {
				case variant == 1:
					ap.Ref = "refs/heads/x/main" // another reference whose name ends the same way
				case variant == 2 && lastEntry != 0:
					ap.FromOp = 0 // another prior state (the zero hash)
				case variant == 2 && lastEntry == 0:
					ap.FromOp = 2 // the branch is being created (prior state zero); the statement names a non-zero prior state
				default:
					if prevCommit == 0 {
						continue
					}
					ap.ToOp = prevCommit // another resulting tree
				}
				if r.Chance(0.5) {
					ap.App, ap.AppKey = appName, appKey
					ap.Approvers = []string{fmt.Sprintf("user-%d", r.Range(1, 3)), fmt.Sprintf("user-%d", r.Range(1, 3))}
					actor = 5
				} else {
					ap.Signers = []int{r.Range(1, 3), r.Range(1, 3)}
				}
			case 8: // lifted signatures
				if prevCommit == 0 {
					continue
				}
				ap.Lift = true
				ap.ToOp = prevCommit
				ap.StoreRef, ap.StoreFrom, ap.StoreTo = mainRef, lastEntry, cm
				if r.Chance(0.5) {
					ap.App, ap.AppKey = appName, appKey
					ap.Approvers = []string{fmt.Sprintf("user-%d", r.Range(1, 3)), fmt.Sprintf("user-%d", r.Range(1, 3))}
					actor = 5
				} else {
					ap.Signers = []int{r.Range(1, 3), r.Range(1, 3)}
				}
			}
			op := world.Op{Kind: "approve", Actor: actor, Approve: ap}
			if r.Chance(0.15) {
				late = append(late, op) // recorded after the entry it targets: must not count
			} else {
				b.add(op)
			}
		}
		if r.Chance(0.15) {
			// the app loses or gains trust before the change is recorded
			pol = pol.Clone()
			pol.RootVersion++
			pol.Apps[0].Trusted = !pol.Apps[0].Trusted
			b.add(world.Op{Kind: "stage", Actor: 0, Policy: pol})
			b.add(world.Op{Kind: "apply", Actor: 0})
		}
		recorder := pusher
		if r.Chance(0.3) {
			recorder = r.Range(1, 4)
		}
		rk := -2
		if r.Chance(0.1) {
			rk = -1
		}
		lastEntry = b.add(world.Op{Kind: "record", Actor: recorder, Ref: mainRef, Base: fmt.Sprintf("op:%d", cm), EntryKey: rk})
		prevCommit = cm
		for _, op := range late {
			b.add(op)
		}
		if r.Chance(0.4) {
			b.add(world.Op{Kind: "verify", Actor: 0, Ref: mainRef, Mode: []string{"full", "latest"}[r.Intn(2)]})
		}
		if r.Chance(0.3) {
			// a release tag for the commit just recorded: the tag object is signed by a trusted person,
			// approvals must name the tag reference, the zero prior state and the COMMIT the tag points to
			tagRef := fmt.Sprintf("refs/tags/v%d", ch)
			tagger := r.Range(1, 3)
			for i, n := 0, r.Range(0, 3); i < n; i++ {
				ap := &world.ApproveSpec{Ref: tagRef, FromOp: 0, ToOp: cm, Tag: true, Signers: []int{r.Range(1, 4)}}
				switch r.Intn(6) {
				case 0: // bound to the commit's tree, as a branch approval would be: not this change
					ap.Tag = false
				case 1: // an approval for another tag name
					ap.Ref = "refs/tags/other"
				case 2: // an approval for main
					ap.Ref, ap.Tag, ap.FromOp = mainRef, false, lastEntry
				}
				b.add(world.Op{Kind: "approve", Actor: ap.Signers[0], Approve: ap})
			}
			recorder, rk := tagger, -2
			switch r.Intn(5) {
			case 0:
				recorder = 4 // defined but not trusted for tags
			case 1:
				rk = -1
			}
			b.add(world.Op{Kind: "tag", Actor: recorder, Ref: tagRef, Base: fmt.Sprintf("op:%d", cm), CommitKey: tagger, EntryKey: rk})
			b.add(world.Op{Kind: "verify", Actor: 0, Ref: tagRef, Mode: "full"})
		}
	}
	c.Ops = b.ops
	return c
}

func (d c09) Execute(c *core.Case) *core.Result {
	res := &core.Result{}
	keys := []int{0, 1, 2, 3, 4, appKey, outsiderKey, app2Key}
	finalRefs := []string{mainRef}
	for _, op := range c.Ops {
		if op.Kind == "tag" {
			finalRefs = append(finalRefs, op.Ref)
		}
	}
	run := runPolicyCase(c, keys, nil, finalRefs, nil)
	if run.Harness != "" {
		res.HarnessErr = run.Harness
		return res
	}
	if run.Panic != "" {
		res.Violate("C09", "panic", run.Panic, 0)
		return res
	}
	w, l := run.W, run.L
	byzSeen := map[string]bool{}
	for _, op := range c.Ops {
		if op.Approve != nil {
			if op.Approve.Misfile {
				byzSeen["misfiled-approval-present"] = true
				if op.Approve.App != "" {
					byzSeen["misfiled-code-review-approval-present"] = true
				}
			}
			if op.Approve.Lift {
				byzSeen["lifted-signatures-present"] = true
			}
		}
	}
	// a review by one trusted app naming a login that belongs to another trusted app's namespace
	crossApp := false
	{
		bothTrusted, legacyLogin := false, false
		for _, op := range c.Ops {
			if op.Policy != nil && len(op.Policy.Apps) >= 2 && op.Policy.Apps[0].Trusted && op.Policy.Apps[1].Trusted {
				bothTrusted = true
			}
			if a := op.Approve; a != nil && a.App == appName {
				for _, l := range a.Approvers {
					if strings.HasPrefix(l, "legacy-") {
						legacyLogin = true
					}
				}
			}
		}
		crossApp = bothTrusted && legacyLogin
	}
	if crossApp {
		byzSeen["approver-login-from-another-trusted-apps-namespace"] = true
	}
	vec := []string{}
	dependsOnApprovals := false
	for i, e := range w.Entries {
		if e.Kind == "reference" && e.Ref == mainRef {
			s := l.SignersFor(i)
			if len(s.EnvelopeKeys) > 0 || len(s.Approvers) > 0 {
				dependsOnApprovals = true
			}
		}
	}
	// attestations planted by someone other than the honest clients (wrong app
	// key, misfiled, lifted): with those present the history is no longer
	// "produced only by authorised actors", so acceptance is not demanded
	planted := false
	for _, op := range c.Ops {
		if a := op.Approve; a != nil && (a.Misfile || a.Lift || (a.App != "" && a.AppKey != appKey)) {
			planted = true
		}
	}
	specified := 0
	for _, rec := range run.Recs {
		lg := truncatedLog(run, rec.LogLen)
		exp, why, feats := expectFor(lg, rec.Op.Ref, modeOf(&rec.Op), rec.FromPos)
		if exp == mustAccept && planted {
			exp = unspecified
		}
		vec = append(vec, fmt.Sprintf("%s=%s/%d", modeOf(&rec.Op), rec.Verdict.Class, exp))
		for f := range byzSeen {
			feats = append(feats, f)
		}
		if exp == mustReject {
			// can the known cross-app pooling explain an acceptance? Only if the first entry the model
			// rejects would meet its rule when logins are pooled across trusted apps
			pos := lg.PositionsForRef(rec.Op.Ref)
			switch modeOf(&rec.Op) {
			case "latest":
				pos = pos[len(pos)-1:]
			case "from":
				keep := []int{}
				for _, p := range pos {
					if p >= rec.FromPos {
						keep = append(keep, p)
					}
				}
				pos = keep
			}
			for _, p := range pos {
				if lg.W.Entries[p].Kind == "reference" && lg.Revoked(p) {
					continue
				}
				if !lg.Decide(p).Authorized {
					if lg.PooledAuthorizes(p) {
						feats = append(feats, "cross-app-pooling-explains")
					}
					break
				}
			}
		}
		if strings.HasPrefix(rec.Op.Ref, "refs/tags/") {
			res.Stat(fmt.Sprintf("tag_verifications_expectation_%d(1=accept,2=reject,0=unspecified)", exp), 1)
			if exp == mustAccept && rec.Verdict.Class == "accept" {
				res.Stat("probe:tag_accepted_as_demanded", 1)
			}
		}
		switch exp {
		case mustReject:
			specified++
			res.Stat("verdicts_must_reject", 1)
			if rec.Verdict.Class == "accept" {
				if strings.HasPrefix(rec.Op.Ref, "refs/tags/") {
					feats = append(feats, "tag-reference")
				}
				res.Violate("C09", "approval-miscount", fmt.Sprintf("%s verification of %s succeeded although %s", modeOf(&rec.Op), rec.Op.Ref, why), rec.Op.ID, append(feats, "direction=false-accept", "mode="+modeOf(&rec.Op))...)
			}
		case mustAccept:
			specified++
			res.Stat("verdicts_must_accept", 1)
			if rec.Verdict.Class != "accept" {
				res.Violate("C09", "approval-miscount", fmt.Sprintf("%s verification of %s failed (%s) although %s (distinct trusted principals met the threshold through entry signature, authorizations and code-review identities)", modeOf(&rec.Op), rec.Op.Ref, rec.Verdict.Err, why), rec.Op.ID, "direction=false-reject", "mode="+modeOf(&rec.Op))
			}
		default:
			res.Stat("verdicts_unspecified", 1)
		}
	}
	pattern := entryPattern(run)
	apat := []string{}
	for _, op := range c.Ops {
		if op.Approve != nil {
			a := op.Approve
			apat = append(apat, fmt.Sprintf("s%v/app=%s:%d/%v-%v/m%v/l%v", a.Signers, a.App, a.AppKey, a.Approvers, a.Dismissed, a.Misfile, a.Lift))
		}
	}
	res.Steps = len(c.Ops)
	res.Digest = core.HashStrings(strings.Join(pattern, ","), strings.Join(vec, ","), strings.Join(apat, ";"), refDigest(w.St))
	res.StateKey = core.HashStrings(strings.Join(pattern, ","), strings.Join(vec, ","), strings.Join(apat, ";"))
	res.Nontrivial = dependsOnApprovals && specified >= 1
	res.Stat("probe:threshold_met_only_via_approval", boolInt(thresholdViaApproval(l)))
	res.Stat("probe:code_review_identity_credited", boolInt(reviewCredited(run)))
	res.Stat("probe:misfiled_or_lifted_written", boolInt(len(byzSeen) > 0))
	res.Stat("probe:tag_entry_verified", boolInt(len(finalRefs) > 1))
	res.Sample = map[string]any{"ops": describeOps(c.Ops), "approvals": apat, "entries": pattern, "verdict/expectation": vec}
	return res
}

func reviewCredited(run *pwRun) bool {
	for i, e := range run.W.Entries {
		if e.Kind == "reference" && e.Ref == mainRef {
			s := run.L.SignersFor(i)
			for k := range s.Approvers {
				if !strings.Contains(k, "\x00") && len(s.Approvers[k]) > 0 && run.L.Decide(i).Authorized {
					return true
				}
			}
		}
	}
	return false
}
