package props

import (
	"errors"
	"fmt"
	"sort"
	"strings"

	"github.com/gittuf/gittuf/pkg/githash"
	"github.com/gittuf/gittuf/pkg/rsl"
	"github.com/gittuf/gittuf/verifsim/core"
	"github.com/gittuf/gittuf/verifsim/sched"
	"github.com/gittuf/gittuf/verifsim/simstore"
)

// C04 — RSL queries match a plain scan of the chain and fail closed on
// tampering.
//
// The log is written by the harness itself (own formatter, raw commits), so
// the model — a slice — is ground truth. The real readers are queried while
// the log grows (warm process-wide cache from shorter logs) and again after a
// single-point corruption has been spliced in (what an honest reader meets
// after fetching from a hostile forge).
type c04 struct{}

func init() {
	core.Register(c04{})
	core.TierTable["C04"] = map[string]core.TierCfg{"quick": {Runs: 40000, BudgetS: 60}, "thorough": {Runs: 2000000, BudgetS: 900}}
}

func (c04) ID() string    { return "C04" }
func (c04) Level() string { return "exploration" }
func (c04) Rule() string {
	return "A case is a seeded log (up to 30 entries over 4 references incl. refs/gittuf/*, reference / propagation / annotation entries, multi-target annotations, optional legacy unnumbered prefix), a sequence of growth points at which seeded queries run (every exported reader x seeded option combinations x seeded bound entries), process restarts between queries, and optionally one single-point corruption (extra parent, number gap, number duplicate, garbage commit) spliced in before a last round of queries. Each query is one evaluation of the oracle (a newest-to-oldest scan over the model slice). Distinct = distinct (log shape, corruption, query signature); non-trivial = the log has at least 5 entries including an annotation and at least 10 queries with specified expectations ran."
}
func (c04) Components() map[string]string {
	return map[string]string{"pkg/rsl readers, parser, cache": "real", "gitstore.Storer": "stub (SimStore)", "log writer": "harness (own formatter; rsl writers are exercised by C03)"}
}
func (c04) Assumptions() []string {
	return []string{
		"option semantics are those documented in pkg/rsl/options.go (Before* exclusive, Until* inclusive, for id and number forms)",
		"combinations the documentation leaves open (until not older than before, bound ids not in the log) are counted as unspecified and not compared",
		"for ForRef range queries only entries of the requested reference and of other non-gittuf references are compared (inclusion of gittuf namespaces is implementation policy)",
	}
}

type mEntry struct {
	kind     string // reference | propagation | annotation
	ref      string
	target   int   // index into commits
	targets  []int // annotation: positions
	skip     bool
	upstream string
	number   uint64
	id       string
	garbage  bool
}

var c04Refs = []string{mainRef, featRef, "refs/gittuf/policy", "refs/gittuf/policy-staging"}
var c04Ups = []string{"https://up.example/a", "https://up.example/b"}

func (c04) Generate(r *core.Rand, tier string, idx uint64) *core.Case {
	c := &core.Case{Property: "C04", Engine: "simstore", Config: map[string]int{}, Flags: map[string]bool{}}
	c.Config["n"] = r.Range(1, 30)
	if r.Chance(0.3) {
		c.Config["n"] = r.Range(1, 8)
	}
	c.Config["legacy"] = 0
	if r.Chance(0.2) {
		c.Config["legacy"] = r.Range(1, 4)
	}
	c.Config["corrupt"] = 0 // 0 none, 1 extra parent, 2 gap, 3 dup, 4 garbage
	if r.Chance(0.5) {
		c.Config["corrupt"] = r.Range(1, 4)
	}
	c.Config["queries"] = r.Range(10, 40)
	c.Config["growth"] = r.Range(1, 4)
	c.Config["linear"] = r.Intn(2)
	return c
}

func fmtEntry(e *mEntry, ids []string, commits []string) string {
	if e.garbage {
		return "Merge branch 'evil'\n\nnot an RSL entry\n"
	}
	var b strings.Builder
	switch e.kind {
	case "reference":
		fmt.Fprintf(&b, "RSL Reference Entry\n\nref: %s\ntargetID: %s", e.ref, commits[e.target])
	case "propagation":
		fmt.Fprintf(&b, "RSL Propagation Entry\n\nref: %s\ntargetID: %s\nupstreamRepository: %s\nupstreamEntryID: %s", e.ref, commits[e.target], e.upstream, strings.Repeat("ab", 20))
	case "annotation":
		b.WriteString("RSL Annotation Entry\n\n")
		for _, t := range e.targets {
			fmt.Fprintf(&b, "entryID: %s\n", ids[t])
		}
		fmt.Fprintf(&b, "skip: %v", e.skip)
	}
	if e.number > 0 {
		fmt.Fprintf(&b, "\nnumber: %d", e.number)
	}
	b.WriteString("\n")
	return b.String()
}

type c04World struct {
	st      *simstore.Store
	commits []string
	log     []*mEntry // model, oldest first, with ids of the currently materialised chain
	env     *sched.Env
	proc    *sched.Proc
	h       *sched.Handle
}

func (w *c04World) materialise(upto int, from int, corruptAt int, corruptKind int) {
	ids := make([]string, len(w.log))
	for i := 0; i < from; i++ {
		ids[i] = w.log[i].id
	}
	prev := ""
	if from > 0 {
		prev = ids[from-1]
	}
	for i := from; i < upto; i++ {
		e := w.log[i]
		parents := []string{}
		if prev != "" {
			parents = append(parents, prev)
		}
		if corruptKind == 1 && i == corruptAt {
			parents = append(parents, w.commits[0])
		}
		id := w.st.Pool.PutCommitWithSignature(&simstore.CommitSpec{Tree: simstore.EmptyTreeID, Parents: parents, Message: fmtEntry(e, ids, w.commits), Name: "w", Email: "w@example.com", When: simstore.Epoch + int64(i)}, "")
		ids[i] = id
		e.id = id
		prev = id
	}
	if upto > 0 {
		w.st.SetRef(rsl.Ref, ids[upto-1])
	}
}

func (d c04) Execute(c *core.Case) *core.Result {
	res := &core.Result{}
	r := core.NewRand(c.Seed ^ 0xC04)
	n := c.Config["n"]
	w := &c04World{st: simstore.New(), env: sched.NewEnv()}
	w.env.RecordEvents = false
	w.proc = w.env.NewProc("reader")
	w.h = &sched.Handle{St: w.st, P: w.proc, Name: "reader", LocalNS: "reader"}
	// user commits: a linear chain (so "knows commit" is position order) plus one side commit
	prev := ""
	for i := 0; i < 6; i++ {
		parents := []string{}
		if prev != "" {
			parents = append(parents, prev)
		}
		id := w.st.Pool.PutCommitWithSignature(&simstore.CommitSpec{Tree: simstore.EmptyTreeID, Parents: parents, Message: fmt.Sprintf("c%d\n", i), Name: "d", Email: "d@example.com", When: simstore.Epoch}, "")
		w.commits = append(w.commits, id)
		prev = id
	}
	// model log
	legacy := c.Config["legacy"]
	num := uint64(0)
	lastTarget := 0
	hasAnn := false
	for i := 0; i < n; i++ {
		e := &mEntry{}
		if i >= legacy {
			num++
			e.number = num
		}
		k := r.Weighted([]int{6, 2, 3})
		if i == 0 {
			k = 0
		}
		switch k {
		case 0, 1:
			e.kind = "reference"
			if k == 1 {
				e.kind = "propagation"
				e.upstream = c04Ups[r.Intn(2)]
			}
			e.ref = c04Refs[r.Weighted([]int{5, 3, 2, 1})]
			if c.Config["linear"] == 1 {
				if r.Chance(0.5) && lastTarget < len(w.commits)-1 {
					lastTarget++
				}
				e.target = lastTarget
			} else {
				e.target = r.Intn(len(w.commits))
			}
		case 2:
			e.kind = "annotation"
			hasAnn = true
			e.skip = r.Chance(0.6)
			k := r.Range(1, 3)
			seen := map[int]bool{}
			for j := 0; j < k; j++ {
				t := r.Intn(i)
				if !seen[t] {
					seen[t] = true
					e.targets = append(e.targets, t)
				}
			}
		}
		w.log = append(w.log, e)
	}
	queries := 0
	specified := 0
	sigs := []string{}
	check := func(upto int, ck, ckind int) bool {
		nq := c.Config["queries"] / (c.Config["growth"] + 1)
		if nq < 3 {
			nq = 3
		}
		for q := 0; q < nq; q++ {
			if r.Chance(0.1) {
				w.proc.Restart()
			}
			queries++
			sig, spec, v := d.oneQuery(w, r, upto, ck, ckind)
			sigs = append(sigs, sig)
			if spec {
				specified++
			}
			if v != nil {
				v.Detail = fmt.Sprintf("log of %d entries (legacy %d, corruption kind %d at %d): %s", upto, legacy, ckind, ck, v.Detail)
				res.Violations = append(res.Violations, *v)
				return false
			}
		}
		return true
	}
	// growth: query at seeded prefix lengths with a warm cache
	points := []int{}
	for i := 0; i < c.Config["growth"]; i++ {
		points = append(points, r.Range(1, n))
	}
	points = append(points, n)
	sort.Ints(points)
	built := 0
	ok := true
	for _, p := range points {
		if p <= built {
			continue
		}
		w.materialise(p, built, -1, 0)
		built = p
		if ok = check(p, -1, 0); !ok {
			break
		}
	}
	// tampering
	ckind := c.Config["corrupt"]
	ck := -1
	if ok && ckind != 0 && n >= 2 {
		ck = r.Range(1, n-1)
		switch ckind {
		case 2: // gap
			if w.log[ck].number == 0 {
				ckind = 1
			} else {
				for i := ck; i < n; i++ {
					w.log[i].number++
				}
			}
		case 3: // duplicate
			if w.log[ck].number <= 1 {
				ckind = 1
			} else {
				for i := ck; i < n; i++ {
					w.log[i].number--
				}
			}
		case 4:
			w.log[ck].garbage = true
		}
		w.materialise(n, ck, ck, ckind)
		ok = check(n, ck, ckind)
	}
	res.Steps = queries
	shape := []string{}
	for _, e := range w.log {
		shape = append(shape, fmt.Sprintf("%s%d", e.kind[:1], e.number))
	}
	sort.Strings(sigs)
	res.Digest = core.HashStrings(strings.Join(shape, ","), fmt.Sprint(ck, ckind), strings.Join(sigs, ";"))
	res.StateKey = res.Digest
	res.Nontrivial = n >= 5 && hasAnn && specified >= 10
	res.Stat("queries", queries)
	res.Stat("queries_specified", specified)
	res.Stat("queries_unspecified", queries-specified)
	res.Stat("probe:tampered_logs", boolInt(ck >= 0))
	res.Stat("probe:legacy_unnumbered_prefix", boolInt(legacy > 0))
	res.Sample = map[string]any{"log": shape, "corruption": map[string]int{"kind": ckind, "at": ck}, "query_signatures": headN(sigs, 12)}
	return res
}

func headN(s []string, n int) []string {
	if len(s) > n {
		return s[:n]
	}
	return s
}

func (w *c04World) pos(id string, upto int) int {
	for i := 0; i < upto; i++ {
		if w.log[i].id == id {
			return i
		}
	}
	return -1
}

func isUpdater(e *mEntry) bool {
	return !e.garbage && (e.kind == "reference" || e.kind == "propagation")
}

func (w *c04World) skipped(i, upto int) bool {
	if w.log[i].kind != "reference" {
		return false
	}
	for j := i + 1; j < upto; j++ {
		a := w.log[j]
		if a.kind == "annotation" && !a.garbage && a.skip {
			for _, t := range a.targets {
				if t == i {
					return true
				}
			}
		}
	}
	return false
}

func (w *c04World) annotsFor(i, upto int) []string {
	out := []string{}
	for j := i + 1; j < upto; j++ {
		a := w.log[j]
		if a.kind == "annotation" && !a.garbage {
			for _, t := range a.targets {
				if t == i {
					out = append(out, a.id)
					break
				}
			}
		}
	}
	sort.Strings(out)
	return out
}

// fired reports whether a walk visiting positions lo..hi (stepping from each
// position above lo to the one below) meets the corruption.
func fired(lo, hi, ck, ckind int) bool {
	if ck < 0 {
		return false
	}
	switch ckind {
	case 4: // garbage commit: stepping onto it (or starting at it)
		return ck >= lo && ck <= hi
	default: // extra parent / number break: stepping from ck to ck-1
		return ck > lo && ck <= hi
	}
}

func annIDs(as []*rsl.AnnotationEntry) []string {
	out := []string{}
	for _, a := range as {
		out = append(out, a.ID.String())
	}
	sort.Strings(out)
	return out
}

func eqStrings(a, b []string) bool {
	if len(a) != len(b) {
		return false
	}
	for i := range a {
		if a[i] != b[i] {
			return false
		}
	}
	return true
}

// oneQuery draws one query, computes the scan's expectation and compares.
func (d c04) oneQuery(w *c04World, r *core.Rand, upto, ck, ckind int) (sig string, specified bool, v *core.Violation) {
	h := w.h
	tip := upto - 1
	mk := func(class, detail string, feats ...string) *core.Violation {
		sort.Strings(feats)
		return &core.Violation{Property: "C04", Class: class, Detail: detail, Features: feats}
	}
	run := func(f func() error) (err error, pan any) {
		o := w.proc.RunOp(0, f)
		return o.Err, o.Panic
	}
	// judge compares an outcome against the expectation given the lowest
	// position the scan must visit (lo) and one position of tolerated over-walk.
	judge := func(sig string, lo int, gotErr error, pan any, exact func() string, wantNotFound bool, feats ...string) *core.Violation {
		if pan != nil {
			return mk("panic", fmt.Sprintf("%s panicked: %v", sig, pan), feats...)
		}
		must := fired(lo, tip, ck, ckind)
		may := must || fired(lo-1, tip, ck, ckind)
		if must {
			if gotErr == nil {
				return mk("reader-fail-open", fmt.Sprintf("%s returned a result although producing it requires crossing the corrupted point", sig), append(feats, fmt.Sprintf("corruption=%d", ckind))...)
			}
			return nil
		}
		if may && gotErr != nil {
			return nil
		}
		if wantNotFound {
			if gotErr == nil {
				return mk("reader-mismatch", fmt.Sprintf("%s returned a result; the scan finds no qualifying entry", sig), feats...)
			}
			if !errors.Is(gotErr, rsl.ErrRSLEntryNotFound) && !errors.Is(gotErr, rsl.ErrNoRecordOfCommit) {
				return mk("reader-mismatch", fmt.Sprintf("%s failed with %q; the scan finds no qualifying entry and expects a not-found error", sig, gotErr), append(feats, "unexpected-error")...)
			}
			return nil
		}
		if gotErr != nil {
			return mk("reader-mismatch", fmt.Sprintf("%s failed with %q; the scan defines a result", sig, gotErr), append(feats, "unexpected-error")...)
		}
		if why := exact(); why != "" {
			return mk("reader-mismatch", fmt.Sprintf("%s: %s", sig, why), feats...)
		}
		return nil
	}

	switch r.Weighted([]int{10, 2, 2, 3, 2, 1, 1}) {
	case 0: // GetLatestReferenceUpdaterEntry with options
		opts := []rsl.GetLatestReferenceUpdaterEntryOption{}
		parts := []string{"latest"}
		ref := ""
		if r.Chance(0.6) {
			ref = c04Refs[r.Intn(len(c04Refs))]
			if r.Chance(0.05) {
				ref = "refs/heads/none"
			}
			opts = append(opts, rsl.ForReference(ref))
			parts = append(parts, "ref")
		}
		before, until := -1, -1 // positions; -1 unset
		beforeNum, untilNum := false, false
		if r.Chance(0.45) {
			before = r.Intn(upto)
			if r.Chance(0.5) && w.log[before].number > 0 {
				beforeNum = true
				opts = append(opts, rsl.BeforeEntryNumber(w.log[before].number))
				parts = append(parts, "beforeN")
			} else {
				opts = append(opts, rsl.BeforeEntryID(simstore.H(w.log[before].id)))
				parts = append(parts, "beforeID")
			}
		}
		if r.Chance(0.4) {
			until = r.Intn(upto)
			if r.Chance(0.5) && w.log[until].number > 0 {
				untilNum = true
				opts = append(opts, rsl.UntilEntryNumber(w.log[until].number))
				parts = append(parts, "untilN")
			} else {
				opts = append(opts, rsl.UntilEntryID(simstore.H(w.log[until].id)))
				parts = append(parts, "untilID")
			}
		}
		unsk, nong, isref := r.Chance(0.4), r.Chance(0.25), r.Chance(0.25)
		prop := ""
		if r.Chance(0.15) {
			prop = c04Ups[r.Intn(2)]
		}
		if unsk {
			opts = append(opts, rsl.IsUnskipped())
			parts = append(parts, "unskipped")
		}
		if nong {
			opts = append(opts, rsl.ForNonGittufReference())
			parts = append(parts, "nongittuf")
		}
		if isref {
			opts = append(opts, rsl.IsReferenceEntry())
			parts = append(parts, "isref")
		}
		if prop != "" {
			opts = append(opts, rsl.IsPropagationEntryForRepository(prop))
			parts = append(parts, "isprop")
		}
		sig = strings.Join(parts, "+")
		var got rsl.ReferenceUpdaterEntry
		var gotAnn []*rsl.AnnotationEntry
		err, pan := run(func() error {
			var e error
			got, gotAnn, e = rsl.GetLatestReferenceUpdaterEntry(h, opts...)
			return e
		})
		// documented invalid combinations
		if isref && prop != "" {
			if err == nil && pan == nil {
				return sig, true, mk("reader-mismatch", sig+": reference-entry and propagation-entry conditions together were accepted", "invalid-options")
			}
			return sig, true, nil
		}
		// number filters on an unnumbered tip, until beyond the tip: error expected by documentation of the errors; not compared
		if (beforeNum || untilNum) && w.log[tip].number == 0 {
			return sig, false, nil
		}
		if before >= 0 && until >= 0 && until >= before {
			// until not older than before: the documentation leaves this open
			// (number form: before < until is documented invalid)
			if beforeNum && untilNum && w.log[before].number < w.log[until].number {
				if err == nil && pan == nil {
					return sig, true, mk("reader-mismatch", sig+": before-number smaller than until-number was accepted", "invalid-options")
				}
				return sig, true, nil
			}
			return sig, false, nil
		}
		if ck >= 0 && ckind == 4 && (before == ck || until == ck) {
			return sig, false, nil // bound names the garbage commit
		}
		if ck >= 0 && (ckind == 2 || ckind == 3) && (beforeNum || untilNum) {
			return sig, false, nil // number bounds on a log whose numbering is itself corrupted
		}
		start := tip
		if before >= 0 {
			start = before - 1
		}
		bound := 0
		if until >= 0 {
			bound = until
			if untilNum {
				// entries numbered below N are excluded; unnumbered ones count as below
				for bound > 0 && w.log[bound-1].number >= w.log[until].number {
					bound--
				}
			}
		}
		found := -1
		for i := start; i >= bound && i >= 0; i-- {
			e := w.log[i]
			if !isUpdater(e) {
				continue
			}
			if ref != "" && e.ref != ref {
				continue
			}
			if isref && e.kind != "reference" {
				continue
			}
			if unsk && w.skipped(i, upto) {
				continue
			}
			if prop != "" && (e.kind != "propagation" || e.upstream != prop) {
				continue
			}
			if nong && strings.HasPrefix(e.ref, "refs/gittuf/") {
				continue
			}
			found = i
			break
		}
		lo := found
		if found < 0 {
			lo = bound
		}
		feats := []string{}
		if until >= 0 && !untilNum {
			feats = append(feats, "until-id")
			if found == until {
				feats = append(feats, "match-is-until-entry")
			}
		}
		if until >= 0 && untilNum {
			feats = append(feats, "until-number")
		}
		if before >= 0 {
			feats = append(feats, "before")
		}
		v = judge(sig, lo, err, pan, func() string {
			if got.GetID().String() != w.log[found].id {
				return fmt.Sprintf("returned the entry at position %d, the scan defines position %d", w.pos(got.GetID().String(), upto), found)
			}
			if !eqStrings(annIDs(gotAnn), w.annotsFor(found, upto)) {
				return fmt.Sprintf("returned %d annotations for position %d, the scan finds %d", len(gotAnn), found, len(w.annotsFor(found, upto)))
			}
			return ""
		}, found < 0, feats...)
		return sig, true, v

	case 1: // GetLatestEntry / GetEntry / GetParentForEntry
		sig = "tip+parent"
		p := r.Intn(upto)
		var parent rsl.Entry
		err, pan := run(func() error {
			le, e := rsl.GetLatestEntry(h)
			if e != nil {
				return e
			}
			if le.GetID().String() != w.log[tip].id {
				return fmt.Errorf("harness-mismatch: latest entry is not the tip")
			}
			ent, e := rsl.GetEntry(h, simstore.H(w.log[p].id))
			if e != nil {
				return e
			}
			parent, e = rsl.GetParentForEntry(h, ent)
			return e
		})
		if err != nil && strings.Contains(err.Error(), "harness-mismatch") {
			return sig, true, mk("reader-mismatch", "GetLatestEntry did not return the tip of the log")
		}
		if ck >= 0 && ckind == 4 && (p == ck || tip == ck) {
			if err == nil && pan == nil {
				return sig, true, mk("reader-fail-open", "a garbage commit was returned as an entry", "corruption=4")
			}
			return sig, true, nil
		}
		if p == 0 {
			if pan != nil || err == nil || !errors.Is(err, rsl.ErrRSLEntryNotFound) {
				return sig, true, mk("reader-mismatch", fmt.Sprintf("GetParentForEntry(first entry) = %v / %v, expected not-found", err, pan))
			}
			return sig, true, nil
		}
		if pan != nil {
			return sig, true, mk("panic", fmt.Sprintf("GetParentForEntry panicked: %v", pan))
		}
		if fired(p-1, p, ck, ckind) {
			if err == nil {
				return sig, true, mk("reader-fail-open", fmt.Sprintf("GetParentForEntry stepped from position %d across the corrupted point without an error", p), fmt.Sprintf("corruption=%d", ckind))
			}
			return sig, true, nil
		}
		if err != nil {
			return sig, true, mk("reader-mismatch", fmt.Sprintf("GetParentForEntry(position %d) failed with %q although the step does not touch the corrupted point", p, err), "unexpected-error")
		}
		if parent.GetID().String() != w.log[p-1].id {
			return sig, true, mk("reader-mismatch", "GetParentForEntry returned a different entry than the predecessor on the chain")
		}
		return sig, true, nil

	case 2: // GetFirstEntry / GetFirstReferenceUpdaterEntryForRef
		ref := ""
		sig = "first"
		if r.Chance(0.7) {
			ref = c04Refs[r.Intn(len(c04Refs))]
			sig = "firstForRef"
		}
		var got rsl.ReferenceUpdaterEntry
		var gotAnn []*rsl.AnnotationEntry
		err, pan := run(func() error {
			var e error
			if ref == "" {
				got, gotAnn, e = rsl.GetFirstEntry(h)
			} else {
				got, gotAnn, e = rsl.GetFirstReferenceUpdaterEntryForRef(h, ref)
			}
			return e
		})
		found := -1
		for i := 0; i < upto; i++ {
			if isUpdater(w.log[i]) && (ref == "" || w.log[i].ref == ref) {
				found = i
				break
			}
		}
		v = judge(sig, 0, err, pan, func() string {
			if got.GetID().String() != w.log[found].id {
				return fmt.Sprintf("returned position %d, the scan defines %d", w.pos(got.GetID().String(), upto), found)
			}
			if !eqStrings(annIDs(gotAnn), w.annotsFor(found, upto)) {
				return "annotations differ from the scan"
			}
			return ""
		}, found < 0)
		return sig, true, v

	case 3: // range readers
		f := r.Intn(upto)
		l := r.Range(f, tip)
		ref := ""
		sig = "range"
		if r.Chance(0.6) {
			ref = c04Refs[r.Intn(2)]
			sig = "rangeForRef"
		}
		if ck >= 0 && ckind == 4 && (f == ck || l == ck) {
			return sig, false, nil
		}
		var got []rsl.ReferenceUpdaterEntry
		var gotMap map[string][]*rsl.AnnotationEntry
		err, pan := run(func() error {
			var e error
			if ref == "" {
				got, gotMap, e = rsl.GetReferenceUpdaterEntriesInRange(h, simstore.H(w.log[f].id), simstore.H(w.log[l].id))
			} else {
				got, gotMap, e = rsl.GetReferenceUpdaterEntriesInRangeForRef(h, simstore.H(w.log[f].id), simstore.H(w.log[l].id), ref)
			}
			return e
		})
		v = judge(sig, f, err, pan, func() string {
			want := []int{}
			for i := f; i <= l; i++ {
				e := w.log[i]
				if !isUpdater(e) {
					continue
				}
				if ref == "" || e.ref == ref {
					want = append(want, i)
				}
			}
			gotPos := []int{}
			for _, g := range got {
				p := w.pos(g.GetID().String(), upto)
				if p < 0 {
					return "returned an entry that is not in the log"
				}
				if ref != "" && strings.HasPrefix(w.log[p].ref, "refs/gittuf/") && w.log[p].ref != ref {
					continue // inclusion of gittuf namespaces is not compared
				}
				gotPos = append(gotPos, p)
			}
			if fmt.Sprint(gotPos) != fmt.Sprint(want) {
				return fmt.Sprintf("returned positions %v for range [%d,%d], the scan defines %v", gotPos, f, l, want)
			}
			for _, p := range want {
				if !eqStrings(annIDs(gotMap[w.log[p].id]), w.annotsFor(p, upto)) {
					return fmt.Sprintf("annotations for position %d differ from the scan (got %d, want %d)", p, len(gotMap[w.log[p].id]), len(w.annotsFor(p, upto)))
				}
			}
			return ""
		}, false)
		return sig, true, v

	case 4: // GetNonGittufParentReferenceUpdaterEntryForEntry
		sig = "nonGittufParent"
		p := r.Intn(upto)
		if ck >= 0 && ckind == 4 && p == ck {
			return sig, false, nil
		}
		var got rsl.ReferenceUpdaterEntry
		var gotAnn []*rsl.AnnotationEntry
		err, pan := run(func() error {
			ent, e := rsl.GetEntry(h, simstore.H(w.log[p].id))
			if e != nil {
				return e
			}
			got, gotAnn, e = rsl.GetNonGittufParentReferenceUpdaterEntryForEntry(h, ent)
			return e
		})
		found := -1
		for i := p - 1; i >= 0; i-- {
			if isUpdater(w.log[i]) && !strings.HasPrefix(w.log[i].ref, "refs/gittuf/") {
				found = i
				break
			}
		}
		if p == tip {
			// the implementation's first loop assumes the entry is not the tip; documented use passes earlier entries
			return sig, false, nil
		}
		lo := found
		if found < 0 {
			lo = 0
		}
		v = judge(sig, lo, err, pan, func() string {
			if got.GetID().String() != w.log[found].id {
				return fmt.Sprintf("returned position %d, the scan defines %d", w.pos(got.GetID().String(), upto), found)
			}
			if !eqStrings(annIDs(gotAnn), w.annotsFor(found, upto)) {
				return "annotations differ from the scan"
			}
			return ""
		}, found < 0)
		return sig, true, v

	case 5: // GetFirstReferenceUpdaterEntryForCommit on linear target histories
		sig = "firstForCommit"
		ci := r.Intn(len(w.commits))
		var got rsl.ReferenceUpdaterEntry
		err, pan := run(func() error {
			var e error
			got, _, e = rsl.GetFirstReferenceUpdaterEntryForCommit(h, simstore.H(w.commits[ci]))
			return e
		})
		// specified only when targets are monotone along the log (then "first entry
		// whose target contains the commit" has one reading)
		mono := true
		last := -1
		for i := 0; i < upto; i++ {
			e := w.log[i]
			if !isUpdater(e) || strings.HasPrefix(e.ref, "refs/gittuf/") {
				continue
			}
			if e.target < last {
				mono = false
			}
			last = e.target
		}
		if !mono {
			return sig, false, nil
		}
		found := -1
		for i := 0; i < upto; i++ {
			e := w.log[i]
			if isUpdater(e) && !strings.HasPrefix(e.ref, "refs/gittuf/") && e.target >= ci {
				found = i
				break
			}
		}
		lo := found - 1
		if lo < 0 {
			lo = 0
		}
		if found < 0 {
			lo = 0
			for i := tip; i >= 0; i-- { // the scan stops at the latest non-gittuf entry
				if isUpdater(w.log[i]) && !strings.HasPrefix(w.log[i].ref, "refs/gittuf/") {
					lo = i
					break
				}
			}
		}
		v = judge(sig, lo, err, pan, func() string {
			if got.GetID().String() != w.log[found].id {
				return fmt.Sprintf("returned position %d, the scan defines %d", w.pos(got.GetID().String(), upto), found)
			}
			return ""
		}, found < 0)
		if v != nil && v.Class == "reader-fail-open" {
			return sig, true, v
		}
		if v != nil && fired(0, tip, ck, ckind) {
			// this reader re-walks from the tip for every step; with a corrupted log only fail-open is judged
			return sig, false, nil
		}
		return sig, true, v

	default: // explicit invalid option combinations
		sig = "invalid-options"
		e1 := w.log[r.Intn(upto)]
		opts := []rsl.GetLatestReferenceUpdaterEntryOption{}
		if r.Chance(0.5) {
			if e1.number == 0 {
				return sig, false, nil
			}
			opts = append(opts, rsl.BeforeEntryID(githash.Hash(simstore.H(e1.id))), rsl.BeforeEntryNumber(e1.number))
		} else {
			if e1.number == 0 {
				return sig, false, nil
			}
			opts = append(opts, rsl.UntilEntryID(githash.Hash(simstore.H(e1.id))), rsl.UntilEntryNumber(e1.number))
		}
		err, pan := run(func() error {
			_, _, e := rsl.GetLatestReferenceUpdaterEntry(h, opts...)
			return e
		})
		if pan != nil || err == nil {
			return sig, true, mk("reader-mismatch", fmt.Sprintf("two bounds of the same kind were accepted (%v)", pan), "invalid-options")
		}
		return sig, true, nil
	}
}
