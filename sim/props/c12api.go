package props

import (
	"context"
	"encoding/json"
	"errors"
	"fmt"
	"os"
	"sort"
	"strings"

	"github.com/gittuf/gittuf/experimental/gittuf"
	"github.com/gittuf/gittuf/internal/policy"
	"github.com/gittuf/gittuf/internal/tuf"
	"github.com/gittuf/gittuf/pkg/rsl"
	"github.com/gittuf/gittuf/verifsim/core"
	"github.com/gittuf/gittuf/verifsim/gitx"
	"github.com/gittuf/gittuf/verifsim/simstore"
	"github.com/gittuf/gittuf/verifsim/world"
)

// The API slice of C12 ("root-of-trust changes made through the API are
// refused for signers who are not root principals of the state being edited"):
// experimental/gittuf only works on a real git repository, so these few cases
// per run use the git engine.

type c12Mut struct {
	name string
	// call runs the mutator with arguments that are valid in the prepared state
	call func(ctx context.Context, r *gittuf.Repository, s *world.Key) error
}

const (
	c12NewKey     = 11 // a key no role knows
	c12RootB      = 4  // second root key
	c12TargetsB   = 3  // second rule-file key
	c12StagedRoot = 10
)

// SignRoot is deliberately not in the list: it adds a signature to the staged
// root envelope without changing what the envelope says, performs no signer
// check in the pinned tree, and a signature by a non-root key is ignored by
// every verification — it is not a change of the root of trust.
func c12Mutators() []c12Mut {
	p := func(k int) tuf.Principal { return world.GetKey(k).Principal() }
	return []c12Mut{
		{"SetRepositoryLocation", func(ctx context.Context, r *gittuf.Repository, s *world.Key) error {
			return r.SetRepositoryLocation(ctx, s.DSSE(), "https://example.invalid/repo", false)
		}},
		{"AddRootKey", func(ctx context.Context, r *gittuf.Repository, s *world.Key) error {
			return r.AddRootKey(ctx, s.DSSE(), p(c12NewKey), false)
		}},
		{"AddRootKey(self)", func(ctx context.Context, r *gittuf.Repository, s *world.Key) error {
			return r.AddRootKey(ctx, s.DSSE(), s.Principal(), false)
		}},
		{"RemoveRootKey", func(ctx context.Context, r *gittuf.Repository, s *world.Key) error {
			return r.RemoveRootKey(ctx, s.DSSE(), world.GetKey(c12RootB).ID, false)
		}},
		{"AddTopLevelTargetsKey", func(ctx context.Context, r *gittuf.Repository, s *world.Key) error {
			return r.AddTopLevelTargetsKey(ctx, s.DSSE(), p(c12NewKey), false)
		}},
		{"AddTopLevelTargetsKey(self)", func(ctx context.Context, r *gittuf.Repository, s *world.Key) error {
			return r.AddTopLevelTargetsKey(ctx, s.DSSE(), s.Principal(), false)
		}},
		{"RemoveTopLevelTargetsKey", func(ctx context.Context, r *gittuf.Repository, s *world.Key) error {
			return r.RemoveTopLevelTargetsKey(ctx, s.DSSE(), world.GetKey(c12TargetsB).ID, false)
		}},
		{"AddGitHubApp", func(ctx context.Context, r *gittuf.Repository, s *world.Key) error {
			return r.AddGitHubApp(ctx, s.DSSE(), "new-app", p(c12NewKey), false)
		}},
		{"RemoveGitHubApp", func(ctx context.Context, r *gittuf.Repository, s *world.Key) error {
			return r.RemoveGitHubApp(ctx, s.DSSE(), app2Name, false)
		}},
		{"TrustGitHubApp", func(ctx context.Context, r *gittuf.Repository, s *world.Key) error {
			return r.TrustGitHubApp(ctx, s.DSSE(), app2Name, false)
		}},
		{"UntrustGitHubApp", func(ctx context.Context, r *gittuf.Repository, s *world.Key) error {
			return r.UntrustGitHubApp(ctx, s.DSSE(), appName, false)
		}},
		{"UpdateRootThreshold", func(ctx context.Context, r *gittuf.Repository, s *world.Key) error {
			return r.UpdateRootThreshold(ctx, s.DSSE(), 2, false)
		}},
		{"UpdateTopLevelTargetsThreshold", func(ctx context.Context, r *gittuf.Repository, s *world.Key) error {
			return r.UpdateTopLevelTargetsThreshold(ctx, s.DSSE(), 2, false)
		}},
		{"AddGlobalRuleThreshold", func(ctx context.Context, r *gittuf.Repository, s *world.Key) error {
			return r.AddGlobalRuleThreshold(ctx, s.DSSE(), "g-new", []string{"git:refs/heads/x"}, 2, false)
		}},
		{"AddGlobalRuleBlockForcePushes", func(ctx context.Context, r *gittuf.Repository, s *world.Key) error {
			return r.AddGlobalRuleBlockForcePushes(ctx, s.DSSE(), "g-new2", []string{"git:refs/heads/x"}, false)
		}},
		{"UpdateGlobalRuleThreshold", func(ctx context.Context, r *gittuf.Repository, s *world.Key) error {
			return r.UpdateGlobalRuleThreshold(ctx, s.DSSE(), "g-thr", []string{"git:refs/heads/docs"}, 1, false)
		}},
		{"UpdateGlobalRuleBlockForcePushes", func(ctx context.Context, r *gittuf.Repository, s *world.Key) error {
			return r.UpdateGlobalRuleBlockForcePushes(ctx, s.DSSE(), "g-bfp", []string{"git:refs/heads/other"}, false)
		}},
		{"RemoveGlobalRule", func(ctx context.Context, r *gittuf.Repository, s *world.Key) error {
			return r.RemoveGlobalRule(ctx, s.DSSE(), "g-thr", false)
		}},
		{"AddPropagationDirective", func(ctx context.Context, r *gittuf.Repository, s *world.Key) error {
			return r.AddPropagationDirective(ctx, s.DSSE(), "pd-new", "https://example.invalid/up", "refs/heads/main", "", "refs/heads/main", "vendor/", false)
		}},
		{"UpdatePropagationDirective", func(ctx context.Context, r *gittuf.Repository, s *world.Key) error {
			return r.UpdatePropagationDirective(ctx, s.DSSE(), "pd-new", "https://example.invalid/up2", "refs/heads/main", "", "refs/heads/main", "vendor/", false)
		}},
		{"RemovePropagationDirective", func(ctx context.Context, r *gittuf.Repository, s *world.Key) error {
			return r.RemovePropagationDirective(ctx, s.DSSE(), "pd-new", false)
		}},
		{"IncrementRootVersion", func(ctx context.Context, r *gittuf.Repository, s *world.Key) error {
			return r.IncrementRootVersion(ctx, s.DSSE(), false)
		}},
		{"AddHook", func(ctx context.Context, r *gittuf.Repository, s *world.Key) error {
			return r.AddHook(ctx, s.DSSE(), []tuf.HookStage{tuf.HookStagePreCommit}, "h-new", []byte("print('x')"), tuf.HookEnvironmentLua, []string{world.GetKey(1).ID}, 10, false)
		}},
		{"UpdateHook", func(ctx context.Context, r *gittuf.Repository, s *world.Key) error {
			return r.UpdateHook(ctx, s.DSSE(), []tuf.HookStage{tuf.HookStagePreCommit}, "h-new", []byte("print('y')"), tuf.HookEnvironmentLua, []string{world.GetKey(1).ID}, 10, false)
		}},
		{"RemoveHook", func(ctx context.Context, r *gittuf.Repository, s *world.Key) error {
			return r.RemoveHook(ctx, s.DSSE(), []tuf.HookStage{tuf.HookStagePreCommit}, "h-new", false)
		}},
		{"EnableController", func(ctx context.Context, r *gittuf.Repository, s *world.Key) error {
			return r.EnableController(ctx, s.DSSE(), false)
		}},
		{"DisableController", func(ctx context.Context, r *gittuf.Repository, s *world.Key) error {
			return r.DisableController(ctx, s.DSSE(), false)
		}},
		{"AddControllerRepository", func(ctx context.Context, r *gittuf.Repository, s *world.Key) error {
			return r.AddControllerRepository(ctx, s.DSSE(), "ctl", "https://example.invalid/ctl", []tuf.Principal{p(c12NewKey)}, false)
		}},
		{"AddNetworkRepository", func(ctx context.Context, r *gittuf.Repository, s *world.Key) error {
			return r.AddNetworkRepository(ctx, s.DSSE(), "net", "https://example.invalid/net", []tuf.Principal{p(c12NewKey)}, false)
		}},
	}
}

// c12APISigners: who tries. 1 = developer named in the branch rule, 3 = second
// rule-file key (may sign targets, not root), 5 = the code-review app's key,
// advKey = known to the rule file as a principal but in no role, 9 = unknown.
var c12APISigners = []int{1, c12TargetsB, appKey, advKey, unknownKey}

// c12IsAPICase: workers 0-3 (of 16) run an API case as every 100th of their
// cases, starting with their first; the other workers never block on git.
func c12IsAPICase(idx uint64) bool { return idx%16 < 4 && (idx/16)%100 == 0 }
func c12APISeq(idx uint64) uint64  { return (idx/1600)*4 + idx%16 }

func (c12) generateAPI(r *core.Rand, tier string, idx uint64) *core.Case {
	c := &core.Case{Property: "C12", Engine: "git", Config: map[string]int{}, Flags: map[string]bool{}, Strs: map[string]string{}}
	muts := c12Mutators()
	n := 10
	if tier == "thorough" {
		n = 14
	}
	perm := r.Perm(len(muts))
	names := []string{}
	for _, i := range perm[:n] {
		names = append(names, muts[i].name)
	}
	sort.Strings(names)
	c.Strs["mutators"] = strings.Join(names, "|")
	c.Config["scenario"] = int(c12APISeq(idx) % 3) // 0: plain, 1: second root key removed in staging tries, 2: key staged as root for removal tries after discard-like edit
	c.Config["signer"] = c12APISigners[r.Intn(len(c12APISigners))]
	c.Config["probe"] = perm[r.Intn(n)]
	return c
}

func c12RefsDigest(repo *gitx.Repo) string {
	refs := repo.Refs()
	keys := make([]string, 0, len(refs))
	for k := range refs {
		keys = append(keys, k)
	}
	sort.Strings(keys)
	var b strings.Builder
	for _, k := range keys {
		fmt.Fprintf(&b, "%s=%s\n", k, refs[k])
	}
	return b.String()
}

func (d c12) executeAPI(c *core.Case) (res *core.Result) {
	res = &core.Result{}
	defer func() {
		if r := recover(); r != nil {
			if he, ok := r.(gitx.HarnessError); ok {
				res = &core.Result{HarnessErr: he.Error()}
				return
			}
			panic(r)
		}
	}()
	sc, err := gitx.NewScratch()
	if err != nil {
		res.HarnessErr = err.Error()
		return res
	}
	defer sc.Close()
	gitx.SetupProcessEnv(sc.Dir)
	os.Setenv("GITTUF_DEV", "1") // hooks and directive updates are development-mode features
	defer os.Unsetenv("GITTUF_DEV")
	repo, err := sc.Init("repo", false)
	if err != nil {
		res.HarnessErr = err.Error()
		return res
	}
	// applied policy, written with plumbing: roots {0, 4} threshold 1, rule-file
	// keys {0, 3}, two apps, two global rules
	pol := simplePolicy([]int{1, 2}, 1)
	pol.Files["targets"].Principals = append(pol.Files["targets"].Principals, world.KeyPrincipal(advKey))
	pol.RootKeys, pol.RootThreshold, pol.RootSigners = []int{0, c12RootB}, 1, []int{0, c12RootB}
	pol.TargetsKeys = []int{0, c12TargetsB}
	pol.Apps = []world.AppSpec{{Name: appName, Keys: []int{appKey}, Trusted: true, Threshold: 1}, {Name: app2Name, Keys: []int{app2Key}, Trusted: false, Threshold: 1}}
	pol.GlobalRules = []world.GlobalRuleSpec{{Name: "g-thr", Kind: "threshold", Patterns: []string{"git:refs/heads/docs"}, Threshold: 2}, {Name: "g-bfp", Kind: "block-force-pushes", Patterns: []string{"git:" + mainRef}}}
	md, err := pol.Build()
	if err != nil {
		res.HarnessErr = err.Error()
		return res
	}
	rootJSON, _ := json.Marshal(md.RootEnvelope)
	targetsJSON, _ := json.Marshal(md.TargetsEnvelope)
	polTree := repo.WriteFiles(map[string]string{"metadata/root.json": string(rootJSON), "metadata/targets.json": string(targetsJSON)})
	polCommit := repo.CommitTree(polTree, nil, "policy")
	repo.SetRef(policyRef, polCommit)
	repo.SetRef(stagingRef, polCommit)
	empty := repo.MustGit(nil, "hash-object", "-t", "tree", "-w", "--stdin")
	num := 0
	when := simstore.Epoch
	entry := func(ref, target string, key int) {
		num++
		when++
		parents := []string{}
		if tip := repo.GetRef(rsl.Ref); tip != "" {
			parents = append(parents, tip)
		}
		id := signedCommit(repo, empty, parents, fmt.Sprintf("RSL Reference Entry\n\nref: %s\ntargetID: %s\nnumber: %d", ref, target, num), key, when)
		repo.SetRef(rsl.Ref, id)
	}
	entry(stagingRef, polCommit, 0)
	entry(policyRef, polCommit, 0)

	gr, err := gittuf.LoadRepository(repo.Dir)
	if err != nil {
		res.HarnessErr = err.Error()
		return res
	}
	gr.GetGitRepository().VerifSetClock(gitx.FixedTime)
	ctx := context.Background()
	root := world.GetKey(0)
	signer := c.Config["signer"]
	signerKind := map[int]string{1: "branch-rule-developer", c12TargetsB: "rule-file-key", appKey: "app-key", advKey: "principal-without-role", unknownKey: "unknown-key", c12RootB: "root-of-applied-policy-removed-in-staging", c12StagedRoot: "root-staged-then-removed"}
	setup := []string{}
	// staged, not applied: a directive and a hook so that update/remove have something to act on
	byName := map[string]c12Mut{}
	for _, m := range c12Mutators() {
		byName[m.name] = m
	}
	must := func(name string, k *world.Key) bool {
		if err := byName[name].call(ctx, gr, k); err != nil {
			// the preparation itself is gittuf code under test elsewhere; without it the case cannot say anything
			res.Stat("api_setup_failed:"+name, 1)
			res.StateKey = "api-setup-failed-" + name
			return false
		}
		setup = append(setup, name)
		return true
	}
	if !must("AddPropagationDirective", root) || !must("AddHook", root) {
		return res
	}
	// ... recorded in the log like `gittuf policy stage` would; what follows is staged but not yet recorded
	entry(stagingRef, repo.GetRef(stagingRef), 0)
	switch c.Config["scenario"] {
	case 1:
		// key 4 is a root of the applied policy, but the state being edited no longer lists it
		if !must("RemoveRootKey", root) {
			return res
		}
		signer = c12RootB
	case 2:
		// key 6 was staged as root and removed again: root in neither the applied nor the edited state
		k6 := world.GetKey(c12StagedRoot)
		if err := gr.AddRootKey(ctx, root.DSSE(), k6.Principal(), false); err != nil {
			res.StateKey = "api-setup-failed-AddRootKey6"
			return res
		}
		if err := gr.RemoveRootKey(ctx, root.DSSE(), k6.ID, false); err != nil {
			res.StateKey = "api-setup-failed-RemoveRootKey6"
			return res
		}
		setup = append(setup, "AddRootKey(10)", "RemoveRootKey(10)")
		if c.Seed%2 == 0 {
			signer = c12StagedRoot
		}
	}
	sk := world.GetKey(signer)
	feats := func(m string) []string {
		return []string{"mutator=" + m, "signer=" + signerKind[signer]}
	}
	outcomes := []string{}
	for _, name := range strings.Split(c.Strs["mutators"], "|") {
		m, ok := byName[name]
		if !ok {
			continue
		}
		refsBefore := repo.Refs()
		before := c12RefsDigest(repo)
		err := m.call(ctx, gr, sk)
		after := c12RefsDigest(repo)
		res.Steps++
		switch {
		case err == nil:
			outcomes = append(outcomes, name+":accepted")
			res.Violate("C12", "non-root-signer-accepted", fmt.Sprintf("%s signed by %s (key %d), who is not a root principal of the staged state, succeeded", name, signerKind[signer], signer), 0, feats(name)...)
			// undo what the call did, so that the remaining calls are judged against the prepared state
			for ref, id := range refsBefore {
				if repo.GetRef(ref) != id {
					repo.SetRef(ref, id)
				}
			}
		case before != after:
			outcomes = append(outcomes, name+":refused-but-changed")
			res.Violate("C12", "refused-call-changed-refs", fmt.Sprintf("%s by %s was refused (%v) but references changed", name, signerKind[signer], err), 0, feats(name)...)
		case errors.Is(err, gittuf.ErrUnauthorizedKey):
			outcomes = append(outcomes, name+":unauthorized")
			res.Stat("probe:refused_as_unauthorized", 1)
		default:
			outcomes = append(outcomes, name+":refused-other")
			res.Stat("refused_for_another_reason:"+name, 1)
		}
	}
	// the same call by a root principal of the edited state (non-vacuity only: the
	// statement promises refusals, not successes)
	muts := c12Mutators()
	if pi := c.Config["probe"]; pi >= 0 && pi < len(muts) {
		if err := muts[pi].call(ctx, gr, root); err == nil {
			res.Stat("probe:same_call_by_root_principal_succeeded", 1)
			outcomes = append(outcomes, "root:"+muts[pi].name+":ok")
		} else {
			res.Stat("same_call_by_root_principal_failed:"+muts[pi].name, 1)
			outcomes = append(outcomes, "root:"+muts[pi].name+":err")
		}
	}
	// Apply on real git (ancestry through gitinterface.KnowsCommit): first the staged
	// successor as prepared, then a staged state with valid metadata that does not
	// descend from the applied policy commit.
	{
		gi := gr.GetGitRepository()
		entry(stagingRef, repo.GetRef(stagingRef), 0)
		if err := policy.Apply(ctx, gi, false); err == nil {
			res.Stat("probe:api_apply_of_descendant_succeeded", 1)
			outcomes = append(outcomes, "apply:ok")
			if repo.GetRef(policyRef) != repo.GetRef(stagingRef) {
				res.Violate("C12", "apply-wrong-target", "Apply succeeded but refs/gittuf/policy does not equal the staged tip", 0, "engine=git")
			}
		} else {
			res.Stat("api_apply_of_descendant_failed", 1)
			outcomes = append(outcomes, "apply:err")
		}
		polTip := repo.GetRef(policyRef)
		orphan := repo.CommitTree(repo.TreeOf(polTip), nil, "same metadata, unrelated history")
		repo.SetRef(stagingRef, orphan)
		entry(stagingRef, orphan, 0)
		before := c12RefsDigest(repo)
		nEntries, _ := world.WalkRSLGit(repo, rsl.Ref)
		err := policy.Apply(ctx, gi, false)
		after, _ := world.WalkRSLGit(repo, rsl.Ref)
		switch {
		case err == nil:
			// Apply reconciles staging first: it may have re-committed the staged content on top of
			// the applied policy. What counts is what the policy ref holds now.
			now := repo.GetRef(policyRef)
			if _, aerr := repo.Git(nil, "merge-base", "--is-ancestor", polTip, now); aerr != nil {
				outcomes = append(outcomes, "apply-nondescendant:published")
				res.Violate("C12", "applied-non-descendant", fmt.Sprintf("after Apply refs/gittuf/policy is %s, which does not descend from the previously applied policy commit %s (staging held the unrelated commit %s)", short10(now), short10(polTip), short10(orphan)), 0, "engine=git")
			} else {
				outcomes = append(outcomes, "apply-nondescendant:reconciled")
				res.Stat("probe:api_apply_reconciled_non_descendant_staging", 1)
			}
		case c12RefsDigest(repo) != before || len(after) != len(nEntries):
			outcomes = append(outcomes, "apply-nondescendant:refused-but-changed")
			res.Violate("C12", "failed-apply-changed-refs", fmt.Sprintf("Apply refused a non-descendant staged state (%v) but references or the log changed", err), 0, "engine=git")
		default:
			outcomes = append(outcomes, "apply-nondescendant:refused")
			res.Stat("probe:api_apply_of_non_descendant_refused", 1)
		}
	}
	res.Digest = core.HashStrings(strings.Join(setup, ","), strings.Join(outcomes, ","), c12RefsDigest(repo))
	res.StateKey = "api/" + signerKind[signer] + "/" + fmt.Sprint(c.Config["scenario"]) + "/" + core.HashStrings(strings.Join(outcomes, ","))
	res.Nontrivial = true
	res.Stat("probe:api_cases", 1)
	res.Sample = map[string]any{"engine": "git", "setup": setup, "signer": signerKind[signer], "outcomes": outcomes}
	return res
}
