package props

import (
	"context"
	"fmt"
	"sort"
	"strings"

	"github.com/gittuf/gittuf/experimental/gittuf"
	"github.com/gittuf/gittuf/pkg/gitinterface"
	"github.com/gittuf/gittuf/pkg/rsl"
	"github.com/gittuf/gittuf/verifsim/core"
	"github.com/gittuf/gittuf/verifsim/gitx"
	"github.com/gittuf/gittuf/verifsim/world"
)

// C15 — reconcile and sync never drop, reorder, un-revoke or invent log
// entries. Real git: a bare forge and two clones on tmpfs.
type c15 struct{}

func init() {
	core.Register(c15{})
	core.TierTable["C15"] = map[string]core.TierCfg{"quick": {Runs: 400, BudgetS: 100}, "thorough": {Runs: 30000, BudgetS: 1500}}
}

func (c15) ID() string    { return "C15" }
func (c15) Level() string { return "exploration" }
func (c15) Rule() string {
	return "A case is a forge and two clones sharing a log prefix; clone A appends a suffix and wins the race to the forge, clone B appends its own local-only suffix — reference entries on refs disjoint from or overlapping A's, skip annotations targeting shared or B's own local-only entries (single and multi-target), propagation entries — with its local refs behind, equal, ahead or diverged; then B runs ReconcileLocalRSLWithRemote and Sync (with or without the overwrite flag; in fault runs the multi-ref push is torn or its acknowledgement lost). Logs are written by the harness with plain git plumbing and read back by an independent walker on both sides. Oracle: the statement, evaluated on the suffixes the harness wrote. Distinct = distinct (suffix shapes, ref states, flags, outcome vector); non-trivial = both suffixes are non-empty."
}
func (c15) Components() map[string]string {
	return map[string]string{"experimental/gittuf (ReconcileLocalRSLWithRemote, Sync)": "real", "pkg/gitinterface (push, fetch, refs)": "real", "pkg/rsl": "real", "git 2.39, local-path transport, tmpfs": "real", "log writer and reader": "harness plumbing (commit-tree / git log)"}
}
func (c15) Assumptions() []string {
	return []string{"local-path remotes (no network transport); clone B races against a forge that clone A has already updated — the window between B's fetch and push is covered by the fault runs (torn push, lost acknowledgement), not by call-level interleaving"}
}

type c15Entry struct {
	Kind    string `json:"kind"` // reference | annotation | propagation
	Ref     string `json:"ref,omitempty"`
	Targets []int  `json:"targets,omitempty"` // indexes into the combined list (shared prefix, then the side's own suffix)
	Skip    bool   `json:"skip,omitempty"`
}

func (c15) Generate(r *core.Rand, tier string, idx uint64) *core.Case {
	c := &core.Case{Property: "C15", Engine: "git", Config: map[string]int{}, Flags: map[string]bool{}, Strs: map[string]string{}}
	c.Config["shared"] = r.Range(1, 3)
	c.Config["remoteOnly"] = r.Range(0, 4)
	c.Config["localOnly"] = r.Range(1, 4)
	if r.Chance(0.3) {
		c.Config["localOnly"] = 0 // clone B is purely behind
	}
	if r.Chance(0.15) {
		// both sides changed the same reference, one of them only through a propagation entry
		c.Flags["propConflict"] = true
		c.Config["propSide"] = r.Intn(2) // 0: the local side's update is the propagation entry, 1: the remote side's
	}
	if r.Chance(0.5) {
		c.Flags["remoteAnnotated"] = true
		c.Config["annPattern"] = r.Intn(5)
		c.Config["remoteOnly"] = r.Range(0, 2)
	}
	c.Flags["syncOnly"] = r.Chance(0.3)  // Sync without a prior reconcile
	c.Flags["overlap"] = r.Chance(0.3)   // B also changes a ref A changed
	c.Flags["overwrite"] = r.Chance(0.3) // Sync's overwrite flag
	c.Flags["localRefDiverged"] = r.Chance(0.2)
	c.Config["fault"] = 0 // 0 none, 1 torn push, 2 lost ack
	if r.Chance(0.3) {
		c.Config["fault"] = r.Range(1, 2)
	}
	return c
}

func fmtRSL(kind, ref, target string, targets []string, skip bool, number int) string {
	var b strings.Builder
	switch kind {
	case "reference":
		fmt.Fprintf(&b, "RSL Reference Entry\n\nref: %s\ntargetID: %s", ref, target)
	case "propagation":
		fmt.Fprintf(&b, "RSL Propagation Entry\n\nref: %s\ntargetID: %s\nupstreamRepository: https://up.example/repo\nupstreamEntryID: %s", ref, target, strings.Repeat("cd", 20))
	case "annotation":
		b.WriteString("RSL Annotation Entry\n\n")
		for _, t := range targets {
			fmt.Fprintf(&b, "entryID: %s\n", t)
		}
		fmt.Fprintf(&b, "skip: %v", skip)
	}
	fmt.Fprintf(&b, "\nnumber: %d", number)
	return b.String()
}

type c15Log struct {
	kind    string
	ref     string
	target  string
	targets []int // positions in the owner's log
	skip    bool
	id      string
}

func (d c15) Execute(c *core.Case) (res *core.Result) {
	res = &core.Result{}
	defer func() {
		if r := recover(); r != nil {
			if he, ok := r.(gitx.HarnessError); ok {
				res = &core.Result{HarnessErr: he.Error()}
				return
			}
			panic(r)
		}
	}()
	sc, err := gitx.NewScratch()
	if err != nil {
		res.HarnessErr = err.Error()
		return res
	}
	defer sc.Close()
	gitx.SetupProcessEnv(sc.Dir)
	r := core.NewRand(c.Seed ^ 0xC15)
	forge, err := sc.Init("forge.git", true)
	if err != nil {
		res.HarnessErr = err.Error()
		return res
	}
	a, err := sc.Init("a", false)
	if err != nil {
		res.HarnessErr = err.Error()
		return res
	}
	a.MustGit(nil, "remote", "add", "origin", forge.Dir)
	empty := a.MustGit(nil, "hash-object", "-t", "tree", "-w", "--stdin")
	refsAll := []string{"refs/heads/main", "refs/heads/feature", "refs/heads/dev", "refs/heads/docs"}
	tips := map[string]string{}
	// user commits
	newCommit := func(repo *gitx.Repo, ref string, tag string) string {
		parents := []string{}
		if t := repo.GetRef(ref); t != "" {
			parents = append(parents, t)
		}
		tree := repo.WriteFiles(map[string]string{strings.ReplaceAll(ref, "/", "_") + ".txt": tag})
		id := repo.CommitTree(tree, parents, tag)
		repo.SetRef(ref, id)
		return id
	}
	appendEntry := func(repo *gitx.Repo, log *[]c15Log, e c15Log) {
		parents := []string{}
		if t := repo.GetRef(rsl.Ref); t != "" {
			parents = append(parents, t)
		}
		tids := []string{}
		for _, t := range e.targets {
			tids = append(tids, (*log)[t].id)
		}
		id := repo.CommitTree(empty, parents, fmtRSL(e.kind, e.ref, e.target, tids, e.skip, len(*log)+1))
		repo.SetRef(rsl.Ref, id)
		e.id = id
		*log = append(*log, e)
	}
	shared := []c15Log{}
	for i := 0; i < c.Config["shared"]; i++ {
		ref := refsAll[r.Intn(2)]
		t := newCommit(a, ref, fmt.Sprintf("shared-%d", i))
		tips[ref] = t
		appendEntry(a, &shared, c15Log{kind: "reference", ref: ref, target: t})
	}
	a.MustGit(nil, "push", "-q", "origin", "refs/heads/*:refs/heads/*", rsl.Ref+":"+rsl.Ref)
	b, err := sc.Clone(forge, "b")
	if err != nil {
		res.HarnessErr = err.Error()
		return res
	}
	b.MustGit(nil, "fetch", "-q", "--update-head-ok", "origin", rsl.Ref+":"+rsl.Ref, "refs/heads/*:refs/heads/*")
	// A's suffix reaches the forge first
	remoteLog := append([]c15Log{}, shared...)
	remoteRefs := map[string]bool{}
	if c.Flags["remoteAnnotated"] {
		// clone A records a change and then annotates it: nothing, a revocation, a note, or both in either order
		ref := refsAll[r.Intn(2)]
		t := newCommit(a, ref, "remote-annotated")
		remoteRefs[ref] = true
		appendEntry(a, &remoteLog, c15Log{kind: "reference", ref: ref, target: t})
		x := len(remoteLog) - 1
		switch c.Config["annPattern"] {
		case 1:
			appendEntry(a, &remoteLog, c15Log{kind: "annotation", targets: []int{x}, skip: true})
		case 2:
			appendEntry(a, &remoteLog, c15Log{kind: "annotation", targets: []int{x}, skip: false})
		case 3:
			appendEntry(a, &remoteLog, c15Log{kind: "annotation", targets: []int{x}, skip: false})
			appendEntry(a, &remoteLog, c15Log{kind: "annotation", targets: []int{x}, skip: true})
		case 4:
			appendEntry(a, &remoteLog, c15Log{kind: "annotation", targets: []int{x}, skip: true})
			appendEntry(a, &remoteLog, c15Log{kind: "annotation", targets: []int{x}, skip: false})
		}
	}
	if c.Flags["propConflict"] {
		kind := "reference"
		if c.Config["propSide"] == 1 {
			kind = "propagation"
		}
		t := newCommit(a, refsAll[0], "remote-conflicting")
		remoteRefs[refsAll[0]] = true
		appendEntry(a, &remoteLog, c15Log{kind: kind, ref: refsAll[0], target: t})
	}
	for i := 0; i < c.Config["remoteOnly"]; i++ {
		if r.Chance(0.35) && len(remoteLog) > 0 {
			t := r.Intn(len(remoteLog))
			if r.Chance(0.6) {
				t = len(remoteLog) - 1 // the entry just recorded
			}
			if remoteLog[t].kind == "annotation" {
				continue
			}
			sk := r.Chance(0.5)
			appendEntry(a, &remoteLog, c15Log{kind: "annotation", targets: []int{t}, skip: sk})
			if r.Chance(0.5) {
				// a second annotation on the same entry with the other flag (a note before or after the revocation)
				appendEntry(a, &remoteLog, c15Log{kind: "annotation", targets: []int{t}, skip: !sk})
			}
			continue
		}
		ref := refsAll[r.Intn(2)]
		t := newCommit(a, ref, fmt.Sprintf("remote-%d", i))
		remoteRefs[ref] = true
		appendEntry(a, &remoteLog, c15Log{kind: "reference", ref: ref, target: t})
	}
	if len(remoteLog) > len(shared) {
		a.MustGit(nil, "push", "-q", "origin", "refs/heads/*:refs/heads/*", rsl.Ref+":"+rsl.Ref)
	}
	// B's local-only suffix
	localLog := append([]c15Log{}, shared...)
	localRefsChanged := map[string]bool{}
	if c.Flags["propConflict"] {
		kind := "propagation"
		if c.Config["propSide"] == 1 {
			kind = "reference"
		}
		t := newCommit(b, refsAll[0], "local-conflicting")
		localRefsChanged[refsAll[0]] = true
		appendEntry(b, &localLog, c15Log{kind: kind, ref: refsAll[0], target: t})
	}
	for i := 0; i < c.Config["localOnly"]; i++ {
		wts := []int{6, 3, 2}
		if c.Flags["overlap"] {
			wts = []int{4, 2, 4} // a propagation entry is the kind of update a conflict check overlooks
		}
		switch k := r.Weighted(wts); k {
		case 1:
			// annotation targeting shared or local-only entries, possibly several
			n := r.Range(1, 2)
			ts := []int{}
			seen := map[int]bool{}
			for j := 0; j < n; j++ {
				// prefer reference entries
				t := r.Intn(len(localLog))
				if localLog[t].kind == "annotation" || seen[t] {
					continue
				}
				seen[t] = true
				ts = append(ts, t)
			}
			if r.Chance(0.4) {
				// one annotation naming a shared entry AND a local-only one: both ids must survive the replay,
				// the first unchanged, the second remapped
				sharedRefs, localRefs := []int{}, []int{}
				for t, e := range localLog {
					if e.kind == "annotation" {
						continue
					}
					if t < len(shared) {
						sharedRefs = append(sharedRefs, t)
					} else {
						localRefs = append(localRefs, t)
					}
				}
				if len(sharedRefs) > 0 && len(localRefs) > 0 {
					ts = []int{sharedRefs[r.Intn(len(sharedRefs))], localRefs[r.Intn(len(localRefs))]}
				}
			}
			if len(ts) == 0 {
				continue
			}
			appendEntry(b, &localLog, c15Log{kind: "annotation", targets: ts, skip: r.Chance(0.7)})
		default:
			ref := refsAll[2+r.Intn(2)] // disjoint from A's refs
			if c.Flags["overlap"] && r.Chance(0.6) {
				ref = refsAll[r.Intn(2)]
			} else if k != 2 && r.Chance(0.1) {
				ref = "refs/gittuf/policy-staging" // local-only entries of gittuf's own namespaces are entries too
			}
			t := newCommit(b, ref, fmt.Sprintf("local-%d", i))
			kind := "reference"
			if k == 2 {
				kind = "propagation"
			}
			localRefsChanged[ref] = true
			appendEntry(b, &localLog, c15Log{kind: kind, ref: ref, target: t})
		}
	}
	if c.Flags["localRefDiverged"] {
		// a local branch that A also advanced gets a local commit without any log entry
		newCommit(b, refsAll[0], "local-unrecorded")
	}
	localOnly := localLog[len(shared):]
	remoteOnly := remoteLog[len(shared):]
	// what "meaning" is: for every position, kind/ref/target and, for annotations, the content identity of what they name
	identity := func(log []c15Log, i int) string {
		e := log[i]
		return fmt.Sprintf("%s|%s|%s", e.kind, e.ref, e.target)
	}
	skippedSet := func(log []c15Log) []string {
		out := []string{}
		for _, e := range log {
			if e.kind == "annotation" && e.skip {
				for _, t := range e.targets {
					out = append(out, identity(log, t))
				}
			}
		}
		sort.Strings(out)
		return out
	}
	conflict := false
	conflictKinds := map[string]bool{}
	for _, le := range localOnly {
		if le.kind == "annotation" {
			continue
		}
		for _, re := range remoteOnly {
			if re.kind != "annotation" && re.ref == le.ref {
				conflict = true
				conflictKinds[le.kind] = true
			}
		}
	}
	bRepo, err := gittuf.LoadRepository(b.Dir)
	if err != nil {
		res.HarnessErr = err.Error()
		return res
	}
	bRepo.GetGitRepository().VerifSetClock(gitx.FixedTime)
	feat := []string{}
	hasLocalAnnOnLocal, hasProp := false, false
	for i, e := range localOnly {
		if e.kind == "propagation" {
			hasProp = true
		}
		if e.kind == "annotation" {
			for _, t := range e.targets {
				if t >= len(shared) && t < len(shared)+i {
					hasLocalAnnOnLocal = true
				}
			}
		}
	}
	if hasLocalAnnOnLocal {
		feat = append(feat, "annotation-targets-local-only-entry")
	}
	if hasProp {
		feat = append(feat, "propagation-entry-in-local-suffix")
	}
	viol := func(class, detail string, extra ...string) {
		res.Violate("C15", class, detail, 0, append(append([]string{}, feat...), extra...)...)
	}
	outcomes := []string{}
	diverged := len(remoteOnly) > 0 && len(localOnly) > 0
	reconcilePhase := func() {
		refsBefore := b.Refs()
		rerr := bRepo.ReconcileLocalRSLWithRemote(context.Background(), "origin", false)
		refsAfter := b.Refs()
		after, problem := world.WalkRSLGit(b, rsl.Ref)
		if rerr != nil {
			outcomes = append(outcomes, "reconcile:err")
		} else {
			outcomes = append(outcomes, "reconcile:ok")
		}
		switch {
		case !diverged:
			// nothing to replay: behind -> fast-forward, ahead/equal -> unchanged (not the subject here)
		case conflict:
			if rerr == nil {
				k := "reference"
				if !conflictKinds["reference"] {
					k = "propagation-only"
				}
				viol("conflict-not-refused", "both sides changed the same reference but reconciliation succeeded", "conflict-kind="+k)
			} else {
				for k, v := range refsBefore {
					if strings.HasPrefix(k, "refs/remotes/") {
						continue
					}
					if refsAfter[k] != v {
						viol("refused-reconcile-changed-state", fmt.Sprintf("reconciliation was refused but %s changed", k))
					}
				}
			}
		case rerr != nil:
			viol("reconcile-failed", fmt.Sprintf("reconciliation of disjoint suffixes failed: %v", rerr))
		default:
			if problem != "" {
				viol("chain-broken", "local log after reconcile: "+problem)
				break
			}
			// the local log must extend the remote tip
			if len(after) < len(remoteLog) {
				viol("dropped", fmt.Sprintf("local log has %d entries, the remote log alone has %d", len(after), len(remoteLog)))
				break
			}
			for i, e := range remoteLog {
				if after[i].ID != e.id {
					viol("reordered", "the local log does not extend the remote tip")
					break
				}
			}
			replayed := after[len(remoteLog):]
			// each local-only entry exactly once, in order, same meaning
			if len(replayed) != len(localOnly) {
				lost := []string{}
				for _, e := range localOnly {
					lost = append(lost, e.kind)
				}
				got := []string{}
				for _, e := range replayed {
					got = append(got, e.Kind)
				}
				class := "dropped"
				if len(replayed) > len(localOnly) {
					class = "invented"
				}
				viol(class, fmt.Sprintf("local-only suffix was %v; after reconcile the log holds %v on top of the remote tip", lost, got))
				break
			}
			newID := map[int]string{} // position in localLog -> id after reconcile
			for i := range shared {
				newID[i] = shared[i].id
			}
			for i := range localOnly {
				newID[len(shared)+i] = replayed[i].ID
			}
			for i, e := range localOnly {
				g := replayed[i]
				if g.Kind != e.kind || (e.kind != "annotation" && (g.Ref != e.ref || g.Target != e.target)) {
					viol("reordered", fmt.Sprintf("replayed entry %d is %s %s, expected %s %s", i, g.Kind, g.Ref, e.kind, e.ref))
					break
				}
				if e.kind == "annotation" {
					want := []string{}
					for _, t := range e.targets {
						want = append(want, newID[t])
					}
					got := append([]string{}, g.Targets...)
					sort.Strings(want)
					sort.Strings(got)
					if strings.Join(want, ",") != strings.Join(got, ",") || g.Skip != e.skip {
						stale := false
						for _, t := range e.targets {
							if t >= len(shared) {
								for _, gt := range g.Targets {
									if gt == localLog[t].id {
										stale = true
									}
								}
							}
						}
						ex := []string{}
						if stale {
							ex = append(ex, "annotation-names-stale-id")
						}
						viol("un-revoked", fmt.Sprintf("replayed annotation %d names %v, its re-recorded targets are %v (skip %v/%v)", i, shortAll(got), shortAll(want), g.Skip, e.skip), ex...)
						break
					}
				}
			}
			_ = skippedSet
		}
	}
	if !c.Flags["syncOnly"] {
		reconcilePhase()
	}
	// ---- Sync ----
	if len(res.Violations) == 0 {
		race := func() {
			// clone A records and publishes one more change on its own branch
			t := newCommit(a, refsAll[0], "race")
			appendEntry(a, &remoteLog, c15Log{kind: "reference", ref: refsAll[0], target: t})
			_, _ = a.Git(nil, "push", "-q", "origin", refsAll[0]+":"+refsAll[0], rsl.Ref+":"+rsl.Ref)
		}
		d.syncPhase(c, res, r, forge, b, bRepo, &outcomes, viol, race)
	}
	shape := []string{}
	for _, e := range remoteOnly {
		shape = append(shape, "R:"+e.kind[:1]+strings.TrimPrefix(e.ref, "refs/heads/"))
	}
	for _, e := range localOnly {
		shape = append(shape, "L:"+e.kind[:1]+strings.TrimPrefix(e.ref, "refs/heads/"))
	}
	res.Steps = len(shape)
	res.Digest = core.HashStrings(strings.Join(shape, ","), strings.Join(outcomes, ","), fmt.Sprint(c.Config, c.Flags))
	res.StateKey = res.Digest
	res.Nontrivial = len(remoteOnly) > 0 && len(localOnly) > 0
	res.Stat("probe:diverged_logs_reconciled", boolInt(diverged && !conflict))
	res.Stat("probe:conflict_case", boolInt(diverged && conflict))
	res.Stat("probe:annotation_on_local_only_entry", boolInt(hasLocalAnnOnLocal))
	res.Stat("probe:propagation_entry_in_local_suffix", boolInt(hasProp))
	res.Sample = map[string]any{"shared": len(shared), "suffixes": shape, "flags": c.Flags, "outcomes": outcomes}
	return res
}

func shortAll(ids []string) []string {
	out := []string{}
	for _, i := range ids {
		out = append(out, short10(i))
	}
	return out
}

// syncPhase runs Sync on clone B and checks what moved where.
func (d c15) syncPhase(c *core.Case, res *core.Result, r *core.Rand, forge, b *gitx.Repo, bRepo *gittuf.Repository, outcomes *[]string, viol func(class, detail string, extra ...string), race func()) {
	localBefore := b.Refs()
	forgeBefore := forge.Refs()
	lraw, _ := world.WalkRSLGit(b, rsl.Ref)
	fraw, _ := world.WalkRSLGit(forge, rsl.Ref)
	onForge := map[string]bool{}
	for _, e := range fraw {
		onForge[e.ID] = true
	}
	onLocal := map[string]bool{}
	for _, e := range lraw {
		onLocal[e.ID] = true
	}
	localAhead := len(lraw) > len(fraw) && (len(fraw) == 0 || onLocal[fraw[len(fraw)-1].ID])
	remoteAhead := len(fraw) > len(lraw) && (len(lraw) == 0 || onForge[lraw[len(lraw)-1].ID])
	equal := len(lraw) == len(fraw) && (len(lraw) == 0 || lraw[len(lraw)-1].ID == fraw[len(fraw)-1].ID)
	fault := c.Config["fault"]
	fired := false
	if fault != 0 {
		gitinterface.VerifExecHook = func(gitDir string, args []string) error {
			if len(args) == 0 || args[0] != "push" || len(args) < 4 || fired {
				return nil
			}
			fired = true
			specs := args[2:]
			switch fault {
			case 1: // torn push: a seeded proper subset reaches the forge, the call fails
				k := r.Range(1, len(specs)-1)
				sub := append([]string{"push", "-q", args[1]}, specs[:k]...)
				_, _ = b.Git(nil, sub...)
				res.Stat("fault:torn-push", 1)
				return fmt.Errorf("injected: connection reset during push")
			case 3: // the other clone wins a race: it publishes between B's fetch and B's push
				race()
				res.Stat("fault:race-push", 1)
				return nil
			case 2: // lost acknowledgement: everything reaches the forge, the call fails
				all := append([]string{"push", "-q", args[1]}, specs...)
				_, _ = b.Git(nil, all...)
				res.Stat("fault:lost-ack", 1)
				return fmt.Errorf("injected: connection reset after push")
			}
			return nil
		}
		defer func() { gitinterface.VerifExecHook = nil }()
	}
	_, serr := bRepo.Sync(context.Background(), "origin", c.Flags["overwrite"], false)
	if serr != nil {
		*outcomes = append(*outcomes, "sync:err")
	} else {
		*outcomes = append(*outcomes, "sync:ok")
	}
	localAfter := b.Refs()
	forgeAfter := forge.Refs()
	fraw2, fproblem := world.WalkRSLGit(forge, rsl.Ref)
	if fproblem != "" {
		viol("chain-broken", "forge log after sync: "+fproblem)
		return
	}
	// latest unskipped entry per ref in a log
	latestUnskipped := func(raw []*world.RawEntry) map[string]string {
		sk := map[string]bool{}
		for _, e := range raw {
			if e.Kind == "annotation" && e.Skip {
				for _, t := range e.Targets {
					sk[t] = true
				}
			}
		}
		out := map[string]string{}
		for _, e := range raw {
			if e.Kind == "reference" && !sk[e.ID] {
				out[e.Ref] = e.Target
			}
			if e.Kind == "propagation" {
				out[e.Ref] = e.Target
			}
		}
		return out
	}
	feats := []string{}
	if fired {
		feats = append(feats, fmt.Sprintf("fault=%d", fault))
	}
	switch {
	case equal:
		for k, v := range localBefore {
			if !strings.HasPrefix(k, "refs/remotes/") && localAfter[k] != v {
				viol("sync-moved-ref-without-cause", fmt.Sprintf("logs were equal but %s moved", k), feats...)
			}
		}
	case localAhead:
		// entries published only together with the refs their unskipped entries name
		if len(fraw2) < len(fraw) {
			viol("dropped", "the forge log shrank", feats...)
			return
		}
		onForge2 := map[string]bool{}
		for _, e := range fraw2 {
			onForge2[e.ID] = true
		}
		mine := lraw[len(fraw):]
		published := false
		for _, e := range mine {
			if onForge2[e.ID] {
				published = true
			}
		}
		want := latestUnskipped(mine)
		if published {
			for ref, target := range want {
				if strings.HasPrefix(ref, "refs/gittuf/") {
					continue
				}
				if forgeAfter[ref] != target {
					if localBefore[ref] != target {
						feats = append(feats, "local-ref-differs-from-recorded-target")
					}
					viol("entries-published-without-their-refs", fmt.Sprintf("the forge log now holds B's entries but %s on the forge is %s, the latest unskipped published entry records %s", ref, short10(forgeAfter[ref]), short10(target)), feats...)
					return
				}
			}
		} else {
			// B's entries did not reach the forge: none of the branches they name may have been published either
			for ref, target := range want {
				if strings.HasPrefix(ref, "refs/gittuf/") {
					continue
				}
				if forgeAfter[ref] != forgeBefore[ref] && forgeAfter[ref] == target {
					viol("refs-published-without-their-entries", fmt.Sprintf("%s on the forge now is %s, the state B recorded locally, but the forge log did not receive B's entries (sync error: %v)", ref, short10(target), serr), feats...)
					return
				}
			}
		}
	case remoteAhead:
		want := latestUnskipped(fraw)
		for k, v := range localBefore {
			if strings.HasPrefix(k, "refs/remotes/") || k == rsl.Ref || !strings.HasPrefix(k, "refs/heads/") {
				continue
			}
			if localAfter[k] == v {
				continue
			}
			// the ref moved: only to what the latest unskipped remote entry records
			if localAfter[k] != want[k] {
				viol("ref-moved-to-unrecorded-state", fmt.Sprintf("%s moved to %s, the latest unskipped remote entry records %s", k, short10(localAfter[k]), short10(want[k])), feats...)
				return
			}
			// never rewinds or overwrites a diverged local ref unless told to
			anc, _ := b.Git(nil, "merge-base", "--is-ancestor", v, localAfter[k])
			_ = anc
			if _, err := b.Git(nil, "merge-base", "--is-ancestor", v, localAfter[k]); err != nil && !c.Flags["overwrite"] {
				viol("diverged-ref-overwritten", fmt.Sprintf("%s was moved from %s to %s which does not descend from it, without the overwrite flag", k, short10(v), short10(localAfter[k])), feats...)
				return
			}
		}
	default: // diverged logs (reconcile refused or did not run)
		if !c.Flags["overwrite"] {
			for k, v := range localBefore {
				if !strings.HasPrefix(k, "refs/remotes/") && localAfter[k] != v {
					viol("diverged-ref-overwritten", fmt.Sprintf("logs have diverged and overwriting was not allowed, yet %s changed", k), feats...)
					return
				}
			}
		}
	}
}
