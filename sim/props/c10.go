package props

import (
	"bytes"
	"context"
	"encoding/json"
	"fmt"
	"sort"
	"strings"

	"github.com/gittuf/gittuf/internal/policy"
	"github.com/gittuf/gittuf/pkg/gitinterface"
	"github.com/gittuf/gittuf/pkg/rsl"
	"github.com/gittuf/gittuf/verifsim/core"
	"github.com/gittuf/gittuf/verifsim/gitx"
	"github.com/gittuf/gittuf/verifsim/simstore"
	"github.com/gittuf/gittuf/verifsim/world"
)

// C10 — file rules see every changed path verbatim; odd path names are not
// exempt. Real git only: the code under test is gitinterface's parsing of git
// output and the verifier's use of it.
type c10 struct{}

func init() {
	core.Register(c10{})
	core.TierTable["C10"] = map[string]core.TierCfg{"quick": {Runs: 16000, BudgetS: 100}, "thorough": {Runs: 1200000, BudgetS: 1500}}
}

func (c10) ID() string    { return "C10" }
func (c10) Level() string { return "exploration" }
func (c10) Rule() string {
	return "A case is a real git repository whose policy protects main (developers 1 and 2) and, by file rules, one exact odd-named path (one of 10 names with a non-ASCII character, space — inner, leading or trailing —, backslash, *, ?, [, quote or tab; the rule's pattern is that name with pattern metacharacters backslash-escaped) and everything under a directory whose name contains a space (developer 1 only). The harness writes — with NUL-delimited plumbing and in-process signatures — a commit graph (linear commits, a root commit, a merge of a side branch) over an alphabet of path names with space, tab, quote, backslash, control and multi-byte characters and glob metacharacters, signed by developer 1, developer 2 or nobody, and records 1-3 pushes of main. Oracle: (i) GetFilePathsChangedByCommit, GetAllFilesInTree and GetEntriesInTree return exactly the names the harness wrote; (ii) full verification must reject when a non-merge commit newly introduced to main changes a protected path without developer 1's signature, and must accept when every commit that changes a protected path is signed by developer 1. SimStore slice (10 of every 16 run indexes): a policy with a branch rule and 0-4 file rules (exact path, directory prefix with one or two patterns, a delegated file namespace with its own principal, thresholds 1-2), 1-7 pushes of 1-3 commits each (linear, or a side branch merged) signed by developers, an outsider or nobody, authorizations by any subset of developers for exactly the pushed change, rules coming, going and changing hands between pushes; full and latest-only verification at seeded points. Oracle there: the reference model (model.DecideFiles): every path changed by every non-merge commit newly introduced by an examined entry must, if file rules match it, be vouched for by enough of a matching rule's principals (commit signature plus the entry's approvals); merges next to protected paths make the verdict unspecified. Distinct = distinct (name classes touched, graph shape, signer pattern, verdict | per-entry decision pattern, verdict vector); non-trivial = a protected path was changed by a newly introduced commit and the verdict was specified."
}
func (c10) Components() map[string]string {
	return map[string]string{"pkg/gitinterface (changes.go, tree.go, log.go, commit.go)": "real", "internal/policy verifier (file rules)": "real", "pkg/rsl": "real", "git 2.39 on tmpfs": "real", "history writer": "harness plumbing (mktree -z, hash-object, in-process sshsig)", "gitstore.Storer in the SimStore slice": "stub (SimStore; its changed-path computation was compared call by call with real git by `verifsim diffstore`)"}
}
func (c10) Assumptions() []string {
	return []string{"file rule patterns are a backslash-escaped literal name and a directory prefix ending in /*; unescaped metacharacters in patterns (real wildcards other than the trailing /*) are not generated", "reject obligations come from non-merge commits only; the accept direction requires merges to be signed by developer 1 whenever they differ from any parent in a protected path"}
}

var c10Names = []string{
	"plain.txt", "docs/readme", "sp ace", " lead", "\tlead", "trail ", "~last \t", "tab\tname", "qu\"ote", "back\\slash", "ünï.txt", "ctl\x01x", "st*r", "q?m", "[br]",
	"secret dir/key", "secret dir/sp ace", "secret dir/ü", "secret dir/a\"b", "secret dir/deep/x y", "secret dir/st*r", "secret dir/back\\slash",
}

// c10ExactNames are the names the literal file rule may protect. The rule's
// pattern is the name with the pattern syntax's own metacharacters (backslash,
// *, ?, [) escaped by a backslash, as the documented fnmatch syntax requires
// for a pattern that is to match exactly that name.
var c10ExactNames = []string{"ünï.txt", "sp ace", " lead", "~last \t", "back\\slash", "st*r", "q?m", "[br]", "qu\"ote", "tab\tname"}

func c10EscapePattern(name string) string {
	var b strings.Builder
	for _, ch := range name {
		if strings.ContainsRune("\\*?[", ch) {
			b.WriteByte('\\')
		}
		b.WriteRune(ch)
	}
	return b.String()
}

func c10Protected(name string, exact string) bool {
	return name == exact || strings.HasPrefix(name, "secret dir/")
}

func (d c10) Generate(r *core.Rand, tier string, idx uint64) *core.Case {
	if !c10IsGitCase(idx) {
		return d.generateSim(r, tier, idx)
	}
	idx = c10GitSeq(idx)
	c := &core.Case{Property: "C10", Engine: "git", Config: map[string]int{}, Flags: map[string]bool{}, Strs: map[string]string{}}
	c.Config["shape"] = int(idx % 3)                              // 0 linear, 1 merge of a side branch, 2 second root commit merged
	c.Config["exact"] = int(idx / 3 % uint64(len(c10ExactNames))) // which exact name the literal file rule protects
	c.Config["pushes"] = r.Range(1, 2)
	c.Config["commits"] = r.Range(1, 3)
	c.Flags["honest"] = r.Chance(0.4) // every protected change signed by developer 1
	return c
}

// signedCommit writes a commit object with arbitrary parents, signed in
// process exactly as Git's ssh signing does.
func signedCommit(repo *gitx.Repo, tree string, parents []string, msg string, key int, when int64) string {
	var b bytes.Buffer
	fmt.Fprintf(&b, "tree %s\n", tree)
	for _, p := range parents {
		fmt.Fprintf(&b, "parent %s\n", p)
	}
	fmt.Fprintf(&b, "author sim <sim@example.com> %d +0000\ncommitter sim <sim@example.com> %d +0000\n", when, when)
	payload := b.String() + "\n" + msg
	content := payload
	if key >= 0 {
		sig, err := simstore.SignSSH([]byte(payload), world.GetKey(key).PEM)
		if err != nil {
			panic(gitx.HarnessError{Err: err})
		}
		lines := strings.Split(strings.TrimSuffix(sig, "\n"), "\n")
		content = b.String() + "gpgsig " + strings.Join(lines, "\n ") + "\n\n" + msg
	}
	return repo.MustGit([]byte(content), "hash-object", "-t", "commit", "-w", "--stdin")
}

func (d c10) Execute(c *core.Case) (res *core.Result) {
	if c.Engine == "simstore" {
		return d.executeSim(c)
	}
	res = &core.Result{}
	defer func() {
		if r := recover(); r != nil {
			if he, ok := r.(gitx.HarnessError); ok {
				res = &core.Result{HarnessErr: he.Error()}
				return
			}
			panic(r)
		}
	}()
	sc, err := gitx.NewScratch()
	if err != nil {
		res.HarnessErr = err.Error()
		return res
	}
	defer sc.Close()
	gitx.SetupProcessEnv(sc.Dir)
	r := core.NewRand(c.Seed ^ 0xC10)
	repo, err := sc.Init("repo", false)
	if err != nil {
		res.HarnessErr = err.Error()
		return res
	}
	exact := c10ExactNames[c.Config["exact"]%len(c10ExactNames)]
	// policy, written with plumbing
	pol := simplePolicy([]int{1, 2}, 1)
	t := pol.Files["targets"]
	t.Rules = append(t.Rules,
		world.RuleSpec{Name: "protect-exact", Patterns: []string{"file:" + c10EscapePattern(exact)}, Principals: []string{world.GetKey(1).ID}, Threshold: 1},
		world.RuleSpec{Name: "protect-secret-dir", Patterns: []string{"file:secret dir/*"}, Principals: []string{world.GetKey(1).ID}, Threshold: 1})
	md, err := pol.Build()
	if err != nil {
		res.HarnessErr = err.Error()
		return res
	}
	rootJSON, _ := json.Marshal(md.RootEnvelope)
	targetsJSON, _ := json.Marshal(md.TargetsEnvelope)
	polTree := repo.WriteFiles(map[string]string{"metadata/root.json": string(rootJSON), "metadata/targets.json": string(targetsJSON)})
	polCommit := repo.CommitTree(polTree, nil, "policy")
	repo.SetRef(policyRef, polCommit)
	repo.SetRef(stagingRef, polCommit)
	empty := repo.MustGit(nil, "hash-object", "-t", "tree", "-w", "--stdin")
	num := 0
	when := simstore.Epoch
	entry := func(ref, target string, key int) string {
		num++
		when++
		parents := []string{}
		if tip := repo.GetRef(rsl.Ref); tip != "" {
			parents = append(parents, tip)
		}
		id := signedCommit(repo, empty, parents, fmt.Sprintf("RSL Reference Entry\n\nref: %s\ntargetID: %s\nnumber: %d", ref, target, num), key, when)
		repo.SetRef(rsl.Ref, id)
		return id
	}
	entry(stagingRef, polCommit, 0)
	entry(policyRef, polCommit, 0)

	gi, err := gitinterface.LoadRepository(repo.Dir)
	if err != nil {
		res.HarnessErr = err.Error()
		return res
	}
	// history
	files := map[string]string{"plain.txt": "v0"}
	type cinfo struct {
		id      string
		changed []string
		key     int
		merge   bool
		tree    map[string]string
	}
	commits := []cinfo{}
	mkCommit := func(parents []string, base map[string]string, nChanges int, key int, merge bool) (string, map[string]string) {
		cur := map[string]string{}
		for k, v := range base {
			cur[k] = v
		}
		changed := []string{}
		for i := 0; i < nChanges; i++ {
			name := c10Names[r.Intn(len(c10Names))]
			if r.Chance(0.3) {
				name = exact // the path the literal rule protects
			}
			conflict := false
			for ex := range cur {
				if strings.HasPrefix(ex, name+"/") || strings.HasPrefix(name, ex+"/") {
					conflict = true
				}
			}
			if conflict {
				continue
			}
			if _, has := cur[name]; has && r.Chance(0.25) {
				delete(cur, name)
			} else {
				cur[name] = fmt.Sprintf("content-%d", r.Intn(1000))
			}
			changed = append(changed, name)
		}
		when++
		tree := repo.WriteFiles(cur)
		id := signedCommit(repo, tree, parents, "work\n", key, when)
		real := []string{}
		seen := map[string]bool{}
		for _, n := range changed {
			if !seen[n] && base[n] != cur[n] {
				real = append(real, n)
				seen[n] = true
			}
		}
		sort.Strings(real)
		commits = append(commits, cinfo{id: id, changed: real, key: key, merge: merge, tree: cur})
		return id, cur
	}
	signerFor := func(touchesProtected bool) int {
		if c.Flags["honest"] {
			return 1
		}
		return []int{1, 2, 2, -1}[r.Intn(4)]
	}
	tip := ""
	verdictExpect := mustAccept
	why := ""
	oddProtectedChanged := false
	shapeDesc := []string{}
	for p := 0; p < c.Config["pushes"]; p++ {
		firstNew := len(commits)
		n := c.Config["commits"]
		for i := 0; i < n; i++ {
			parents := []string{}
			if tip != "" {
				parents = append(parents, tip)
			}
			key := signerFor(false)
			tip, files = mkCommit(parents, files, r.Range(1, 3), key, false)
			shapeDesc = append(shapeDesc, fmt.Sprintf("c%d", key))
		}
		if p == 0 && c.Config["shape"] != 0 && tip != "" {
			// a side line merged into main
			sideParents := []string{commits[firstNew].id}
			if c.Config["shape"] == 2 {
				sideParents = nil // unrelated root commit
			}
			sideBase := commits[firstNew].tree
			if c.Config["shape"] == 2 {
				sideBase = map[string]string{}
			}
			sideKey := signerFor(false)
			side, sideTree := mkCommit(sideParents, sideBase, r.Range(1, 2), sideKey, false)
			shapeDesc = append(shapeDesc, fmt.Sprintf("s%d", sideKey))
			merged := map[string]string{}
			for k, v := range files {
				merged[k] = v
			}
			for k, v := range sideTree {
				conflict := false
				for ex := range merged {
					if strings.HasPrefix(ex, k+"/") || strings.HasPrefix(k, ex+"/") {
						conflict = true
					}
				}
				if !conflict {
					merged[k] = v
				}
			}
			when++
			mkey := signerFor(false)
			mid := signedCommit(repo, repo.WriteFiles(merged), []string{tip, side}, "merge\n", mkey, when)
			// changed vs any parent
			ch := map[string]bool{}
			for _, par := range []map[string]string{files, sideTree} {
				for k, v := range merged {
					if par[k] != v {
						ch[k] = true
					}
				}
				for k := range par {
					if _, ok := merged[k]; !ok {
						ch[k] = true
					}
				}
			}
			chl := []string{}
			for k := range ch {
				chl = append(chl, k)
			}
			sort.Strings(chl)
			commits = append(commits, cinfo{id: mid, changed: chl, key: mkey, merge: true, tree: merged})
			tip, files = mid, merged
			shapeDesc = append(shapeDesc, fmt.Sprintf("m%d", mkey))
		}
		repo.SetRef(mainRef, tip)
		pusher := []int{1, 2}[r.Intn(2)]
		entry(mainRef, tip, pusher)
		shapeDesc = append(shapeDesc, fmt.Sprintf("push%d", pusher))
		for _, ci := range commits[firstNew:] {
			for _, n := range ci.changed {
				if !c10Protected(n, exact) {
					continue
				}
				if n != "secret dir/key" {
					oddProtectedChanged = true
				}
				if ci.key != 1 {
					if !ci.merge && verdictExpect != mustReject {
						verdictExpect = mustReject
						why = fmt.Sprintf("commit %s changes protected path %q and is signed by key %d, not by developer 1", short10(ci.id), n, ci.key)
					} else if ci.merge && verdictExpect == mustAccept {
						verdictExpect = unspecified
					}
				}
			}
		}
	}
	// (i) monitors
	for _, ci := range commits {
		got, err := gi.GetFilePathsChangedByCommit(simstore.H(ci.id))
		if err != nil {
			res.Violate("C10", "path-misreported", fmt.Sprintf("GetFilePathsChangedByCommit(%s) failed: %v", short10(ci.id), err), 0)
			break
		}
		want := ci.changed
		if len(repoParents(repo, ci.id)) == 0 {
			want = sortedKeys(ci.tree)
		}
		if ci.merge {
			continue // merge semantics ("changed by a merge") are implementation-defined; only plain commits are compared
		}
		g := append([]string{}, got...)
		sort.Strings(g)
		if strings.Join(g, "\x00") != strings.Join(want, "\x00") {
			res.Violate("C10", "path-misreported", fmt.Sprintf("GetFilePathsChangedByCommit(%s) returned %q, the commit changed %q", short10(ci.id), g, want), 0, nameClasses(want)...)
			break
		}
		all, err := gi.GetAllFilesInTree(simstore.H(repo.TreeOf(ci.id)))
		if err != nil {
			res.Violate("C10", "path-misreported", fmt.Sprintf("GetAllFilesInTree failed: %v", err), 0)
			break
		}
		gotAll := []string{}
		for k := range all {
			gotAll = append(gotAll, k)
		}
		sort.Strings(gotAll)
		wantAll := sortedKeys(ci.tree)
		if strings.Join(gotAll, "\x00") != strings.Join(wantAll, "\x00") {
			res.Violate("C10", "path-misreported", fmt.Sprintf("GetAllFilesInTree returned %q, the tree holds %q", gotAll, wantAll), 0, nameClasses(wantAll)...)
			break
		}
	}
	// (ii) verdict
	verdict := ""
	{
		_, verr := policy.NewPolicyVerifier(gi).VerifyRefFull(context.Background(), mainRef)
		verdict = world.Classify(verr)
		switch verdictExpect {
		case mustReject:
			res.Stat("verdicts_must_reject", 1)
			if verdict == "accept" {
				res.Violate("C10", "protected-path-change-accepted", "full verification of main succeeded although "+why, 0)
			}
		case mustAccept:
			res.Stat("verdicts_must_accept", 1)
			if verdict != "accept" {
				res.Violate("C10", "authorised-history-rejected", fmt.Sprintf("full verification of main failed (%v) although every commit that changes a protected path is signed by developer 1", verr), 0)
			}
		default:
			res.Stat("verdicts_unspecified", 1)
		}
	}
	classes := map[string]bool{}
	for _, ci := range commits {
		for _, n := range ci.changed {
			classes[nameClass(n)] = true
		}
	}
	res.Steps = len(commits)
	res.Digest = core.HashStrings(strings.Join(shapeDesc, ","), strings.Join(sortedKeys(classes), ","), verdict, fmt.Sprint(verdictExpect))
	res.StateKey = res.Digest
	res.Nontrivial = oddProtectedChanged
	res.Stat("probe:odd_protected_path_changed", boolInt(oddProtectedChanged))
	res.Stat("probe:merge_commit_in_history", boolInt(c.Config["shape"] != 0))
	paths := []string{}
	for _, ci := range commits {
		paths = append(paths, fmt.Sprintf("%s key=%d merge=%v %q", short10(ci.id), ci.key, ci.merge, ci.changed))
	}
	res.Sample = map[string]any{"exact_rule": "file:" + exact, "graph": shapeDesc, "commits": paths, "verdict": verdict, "expectation(1=accept,2=reject,0=unspecified)": verdictExpect}
	return res
}

func repoParents(repo *gitx.Repo, id string) []string {
	p, _, _, _ := repo.CommitInfo(id)
	return p
}

func nameClasses(names []string) []string {
	m := map[string]bool{}
	for _, n := range names {
		m["name-class="+nameClass(n)] = true
	}
	return sortedKeys(m)
}
