package props

import (
	"context"
	"encoding/base64"
	"fmt"
	"os"
	"strings"

	"github.com/gittuf/gittuf/experimental/gittuf"
	"github.com/gittuf/gittuf/internal/attestations"
	"github.com/gittuf/gittuf/internal/signerverifier/dsse"
	"github.com/gittuf/gittuf/pkg/gitinterface"
	"github.com/gittuf/gittuf/pkg/rsl"
	"github.com/gittuf/gittuf/verifsim/gitx"
	"github.com/gittuf/gittuf/verifsim/simstore"
	"github.com/gittuf/gittuf/verifsim/world"
)

// A controller repository and a network repository that follows it, on real
// git (the controller's root of trust reaches the network repository by
// cloning and propagation, which only exist on real repositories). Used by the
// network slices of C11 (global rules declared by a controller) and C18 (the
// directive gittuf synthesises for a controller).

type netEnv struct {
	sc        *gitx.Scratch
	ctl, net  *gitx.Repo
	ctlGI     *gitinterface.Repository
	netGI     *gitinterface.Repository
	netRepo   *gittuf.Repository
	ctlSpec   *world.PolicySpec
	netSpec   *world.PolicySpec
	downPath  string // where the controller's metadata lands in the network repository's policy tree
	when      int64
	emptyTree string
}

// newNetEnv creates both repositories with applied policies. ctlGlobal /
// netGlobal are the global rules each root declares.
func newNetEnv(ctlGlobal, netGlobal []world.GlobalRuleSpec) (*netEnv, error) {
	sc, err := gitx.NewScratch()
	if err != nil {
		return nil, err
	}
	gitx.SetupProcessEnv(sc.Dir)
	os.Setenv("TMPDIR", sc.Dir) // gittuf clones controllers into temporary directories
	e := &netEnv{sc: sc, when: simstore.Epoch}
	fail := func(err error) (*netEnv, error) {
		e.Close()
		return nil, err
	}
	if e.ctl, err = sc.Init("controller", false); err != nil {
		return fail(err)
	}
	if e.net, err = sc.Init("network", false); err != nil {
		return fail(err)
	}
	open := func(r *gitx.Repo) (*gitinterface.Repository, error) {
		gi, err := gitinterface.LoadRepository(r.Dir)
		if err != nil {
			return nil, err
		}
		gi.VerifSetClock(gitx.FixedTime)
		return gi, nil
	}
	if e.ctlGI, err = open(e.ctl); err != nil {
		return fail(err)
	}
	if e.netGI, err = open(e.net); err != nil {
		return fail(err)
	}
	e.ctlSpec = simplePolicy([]int{1, 2}, 1)
	e.ctlSpec.Controller = true
	e.ctlSpec.NetworkRepos = []world.RepoRef{{Name: "net", Location: e.net.Dir, RootKeys: []int{0}}}
	e.ctlSpec.GlobalRules = ctlGlobal
	e.netSpec = simplePolicy([]int{1, 2}, 1)
	e.netSpec.Files["targets"].Principals = append(e.netSpec.Files["targets"].Principals, world.KeyPrincipal(3))
	e.netSpec.ControllerRepos = []world.RepoRef{{Name: "controller", Location: e.ctl.Dir, RootKeys: []int{0}}}
	e.netSpec.GlobalRules = netGlobal
	for _, x := range []struct {
		gi   *gitinterface.Repository
		spec *world.PolicySpec
	}{{e.ctlGI, e.ctlSpec}, {e.netGI, e.netSpec}} {
		if err := world.CommitPolicy(x.gi, x.spec, false); err != nil {
			return fail(fmt.Errorf("staging policy: %w", err))
		}
		if err := world.ApplyPolicy(x.gi, false); err != nil {
			return fail(fmt.Errorf("applying policy: %w", err))
		}
	}
	if e.netRepo, err = gittuf.LoadRepository(e.net.Dir); err != nil {
		return fail(err)
	}
	e.netRepo.GetGitRepository().VerifSetClock(gitx.FixedTime)
	e.downPath = "gittuf-controller/controller-" + base64.URLEncoding.EncodeToString([]byte(e.ctl.Dir))
	e.emptyTree = e.net.MustGit(nil, "hash-object", "-t", "tree", "-w", "--stdin")
	return e, nil
}

func (e *netEnv) Close() {
	os.Unsetenv("TMPDIR")
	e.sc.Close()
}

// propagate runs gittuf's policy-driven propagation in the network repository.
func (e *netEnv) propagate() error {
	return e.netRepo.PropagateChangesFromUpstreamRepositories(context.Background(), false)
}

// push creates a commit on ref in the network repository (rewrite: with no
// parent) signed by key, and records it with an entry signed by the same key.
func (e *netEnv) push(ref string, key int, tag string, rewrite bool) (commit string, entry string) {
	commit = e.commit(ref, key, tag, rewrite)
	return commit, e.record(ref, commit, key)
}

// commit creates the commit and moves the branch, recording nothing yet.
func (e *netEnv) commit(ref string, key int, tag string, rewrite bool) string {
	parents := []string{}
	if tip := e.net.GetRef(ref); tip != "" && !rewrite {
		parents = append(parents, tip)
	}
	e.when++
	tree := e.net.WriteFiles(map[string]string{"f.txt": tag})
	commit := signedCommit(e.net, tree, parents, "work "+tag+"\n", key, e.when)
	e.net.SetRef(ref, commit)
	return commit
}

func (e *netEnv) record(ref, target string, key int) string {
	raw, _ := world.WalkRSLGit(e.net, rsl.Ref)
	e.when++
	parents := []string{}
	if tip := e.net.GetRef(rsl.Ref); tip != "" {
		parents = append(parents, tip)
	}
	id := signedCommit(e.net, e.emptyTree, parents, fmt.Sprintf("RSL Reference Entry\n\nref: %s\ntargetID: %s\nnumber: %d", ref, target, len(raw)+1), key, e.when)
	e.net.SetRef(rsl.Ref, id)
	return id
}

// approve stores an authorization by key for moving ref from `from` to the tree of `to`.
func (e *netEnv) approve(ref, from, to string, key int) error {
	atts, err := attestations.LoadCurrentAttestations(e.netGI)
	if err != nil {
		return err
	}
	if from == "" {
		from = strings.Repeat("0", 40)
	}
	tree := e.net.TreeOf(to)
	stmt, err := attestations.NewReferenceAuthorizationForCommit(ref, from, tree)
	if err != nil {
		return err
	}
	env, err := dsse.CreateEnvelope(stmt)
	if err != nil {
		return err
	}
	env, err = dsse.SignEnvelope(context.Background(), env, world.GetKey(key).DSSE())
	if err != nil {
		return err
	}
	if err := atts.SetReferenceAuthorization(e.netGI, env, ref, from, tree); err != nil {
		return err
	}
	return atts.Commit(e.netGI, "approval", true, false)
}
