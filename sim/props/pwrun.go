package props

import (
	"fmt"

	"github.com/gittuf/gittuf/verifsim/core"
	"github.com/gittuf/gittuf/verifsim/model"
	"github.com/gittuf/gittuf/verifsim/world"
)

// vrec is one verification that happened in a policy-world run.
type vrec struct {
	Op      world.Op
	Verdict world.Verdict
	FromPos int
	LogLen  int // number of RSL entries when it ran
}

type pwRun struct {
	W        *world.World
	L        *model.Log
	Recs     []vrec
	Panic    string
	Harness  string
	OpErrors map[int]string
}

// runPolicyCase executes the case's operations on a fresh world. transform,
// if set, rewrites every policy spec before it is staged (used to run the same
// history under P and under P +/- global rules). hook, if set, is called after
// every executed operation.
func runPolicyCase(c *core.Case, keys []int, transform func(*world.PolicySpec) *world.PolicySpec, finalRefs []string, hook func(w *world.World, op *world.Op)) *pwRun {
	w := world.NewWithKeys(keys)
	w.Env.RecordEvents = false
	run := &pwRun{W: w, L: &model.Log{W: w}, OpErrors: map[int]string{}}
	for i := range c.Ops {
		op := c.Ops[i]
		if op.Policy != nil && transform != nil {
			op.Policy = transform(op.Policy)
		}
		out := w.Exec(&op)
		if out.Err == world.ErrSkipped {
			continue
		}
		if out.Panic != nil {
			run.Panic = fmt.Sprintf("op #%d %s panicked: %v", op.ID, op.Kind, out.Panic)
			return run
		}
		if out.Err != nil {
			run.OpErrors[op.ID] = out.Err.Error()
			if op.Kind == "stage" || op.Kind == "apply" {
				run.Harness = fmt.Sprintf("policy op #%d %s failed: %v", op.ID, op.Kind, out.Err)
				return run
			}
		}
		if op.Kind == "verify" {
			fromPos := 0
			if op.Mode == "from" {
				if e, ok := w.ByOp[op.FromEntry]; ok {
					fromPos = posOf(w, e.ID)
				}
			}
			run.Recs = append(run.Recs, vrec{Op: op, Verdict: w.Verdicts[op.ID], FromPos: fromPos, LogLen: len(w.Entries)})
		}
		if hook != nil {
			hook(w, &op)
		}
	}
	id := 10000
	for _, ref := range finalRefs {
		pos := run.L.PositionsForRef(ref)
		if len(pos) == 0 {
			continue
		}
		modes := []world.Op{{Kind: "verify", Ref: ref, Mode: "full"}, {Kind: "verify", Ref: ref, Mode: "latest"}}
		rr := core.NewRand(c.Seed ^ uint64(len(pos)))
		p := pos[rr.Intn(len(pos))]
		if w.Entries[p].Kind == "reference" {
			modes = append(modes, world.Op{Kind: "verify", Ref: ref, Mode: "from", FromEntry: w.Entries[p].OpID})
		}
		for _, m := range modes {
			id++
			m.ID = id
			m.Actor = 0
			w.Actors[0].Proc.Restart()
			out := w.Exec(&m)
			if out.Panic != nil {
				run.Panic = fmt.Sprintf("verification panicked: %v", out.Panic)
				return run
			}
			v := w.Verdicts[m.ID]
			if v.Class == "skipped" {
				continue
			}
			fromPos := 0
			if m.Mode == "from" {
				if e, ok2 := w.ByOp[m.FromEntry]; ok2 {
					fromPos = posOf(w, e.ID)
				}
			}
			run.Recs = append(run.Recs, vrec{Op: m, Verdict: v, FromPos: fromPos, LogLen: len(w.Entries)})
		}
	}
	return run
}

// truncatedLog returns a model log restricted to the first n entries.
func truncatedLog(r *pwRun, n int) *model.Log {
	if n >= len(r.W.Entries) {
		return r.L
	}
	w2 := *r.W
	w2.Entries = r.W.Entries[:n]
	return &model.Log{W: &w2}
}

func entryPattern(r *pwRun) []string {
	pattern := []string{}
	for i, e := range r.W.Entries {
		if e.Kind == "annotation" {
			pattern = append(pattern, "a")
			continue
		}
		if len(e.Ref) > 12 && e.Ref[:12] == "refs/gittuf/" {
			pattern = append(pattern, "g"+e.Ref[12:])
			continue
		}
		d := r.L.Decide(i)
		s := fmt.Sprintf("%s:%v:%v:%v", e.Ref[len("refs/heads/"):], d.Protected, d.Authorized, r.L.Revoked(i))
		if d.GlobalFail {
			s += ":G"
		}
		pattern = append(pattern, s)
	}
	return pattern
}

func hasGlobalMatch(r *pwRun) bool {
	for i, e := range r.W.Entries {
		if e.Kind == "annotation" || (len(e.Ref) > 12 && e.Ref[:12] == "refs/gittuf/") {
			continue
		}
		p := r.L.PolicyBefore(i)
		if p == nil {
			continue
		}
		for _, g := range p.GlobalRules {
			for _, pat := range g.Patterns {
				if model.Match(pat, "git:"+e.Ref) {
					return true
				}
			}
		}
	}
	return false
}

func forcePushed(r *pwRun) bool {
	for i, e := range r.W.Entries {
		if e.Kind != "reference" || (len(e.Ref) > 12 && e.Ref[:12] == "refs/gittuf/") {
			continue
		}
		if p := r.L.PrevForRef(i); p >= 0 {
			if ok, err := r.W.St.IsAncestor(r.W.Entries[p].Target, e.Target); err == nil && !ok {
				return true
			}
		}
	}
	return false
}
