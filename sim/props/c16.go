package props

import (
	"fmt"
	"strings"

	"github.com/gittuf/gittuf/pkg/rsl"
	"github.com/gittuf/gittuf/verifsim/core"
	"github.com/gittuf/gittuf/verifsim/sched"
	"github.com/gittuf/gittuf/verifsim/simstore"
	"github.com/gittuf/gittuf/verifsim/world"
)

// C16 — a storage failure at any step leaves the log valid and managed refs
// consistent; a crash leaves verdicts at before-or-after.
//
// One case = one (starting state, mutating operation). The executor records
// the operation's storage-call trace in a fault-free dry run and then sweeps
// it: every call x {io-error, crash-after} (+ crash-before the first call),
// restoring the starting state each time.
type c16 struct{}

func init() { core.Register(c16{}) }

func (c16) ID() string    { return "C16" }
func (c16) Level() string { return "fault_enumeration" }
func (c16) Rule() string {
	return "A case is (seeded starting state, mutating operation); its storage-call trace from a fault-free dry run is swept completely: every call index x {io-error, crash-after}, plus crash-before the first call. Distinct = distinct (state kind, op kind, trace shape, history length); non-trivial = the operation succeeded fault-free, made at least one write call, and at least one injected fault of each enabled kind actually fired. Real-git slice (workers 0-2 of 16): the same five operations (record, annotate, stage, apply, approval commit) on a real repository, nothing recorded before or established; the fault is the k-th git subprocess of the operation not being run and reporting an error, or the process dying right after it (up to 6 positions per case spread over the trace, the offset moving with the case number so that successive cases cover every position); same obligations, judged with plumbing (git log, for-each-ref), retry in a fresh handle."
}
func (c16) Components() map[string]string {
	return map[string]string{
		"pkg/rsl": "real", "internal/policy": "real", "internal/attestations": "real", "internal/cache": "real",
		"internal/signerverifier/{ssh,dsse,gitobject}": "real", "gitstore.Storer": "stub (SimStore; Commit split into read/object/cas like gitinterface/commit.go)",
		"pkg/gitinterface (compare-and-set, ResetDueToError, DeleteReference) and git 2.39": "real in the real-git slice",
	}
}
func (c16) Assumptions() []string {
	return []string{
		"object writes are durable once the call returns; unreferenced objects are unobservable",
		"a crash kills the process between two storage calls: no deferred code touches storage afterwards",
		"equivalence with the uninterrupted run is judged on the trees the managed refs hold and ref/entry consistency, not on commit ids (timestamps and parents legitimately differ after a retry)",
	}
}

var c16States = []string{"empty", "first-policy", "established", "staging-ahead", "policy-ahead", "diverged", "attestations"}
var c16Ops = []string{"push", "annotate", "propagation", "stage", "apply", "approve", "reconcileStaging", "autoskip", "approveAgain"}

func (d c16) Generate(r *core.Rand, tier string, idx uint64) *core.Case {
	if c16IsGitCase(idx) {
		return d.generateGit(r, tier, idx)
	}
	c := &core.Case{Property: "C16", Engine: "simstore", Config: map[string]int{}, Flags: map[string]bool{}}
	state := r.Intn(len(c16States))
	op := r.Intn(len(c16Ops))
	b := &opBuilder{}
	nDev := r.Range(1, 3)
	devs := []int{}
	for i := 1; i <= nDev; i++ {
		devs = append(devs, i)
	}
	thr := 1
	pol := simplePolicy(devs, thr)
	pushes := []int{}
	switch c16States[state] {
	case "empty":
	case "first-policy":
		// nothing applied yet; optionally a staged policy
		if r.Chance(0.5) {
			b.add(world.Op{Kind: "stage", Actor: 0, Policy: pol})
		}
	default:
		b.add(world.Op{Kind: "stage", Actor: 0, Policy: pol})
		b.add(world.Op{Kind: "apply", Actor: 0})
		n := r.Range(1, 5)
		for i := 0; i < n; i++ {
			a := devs[r.Intn(len(devs))]
			if r.Chance(0.15) {
				a = 3 // possibly unauthorised
			}
			ref := mainRef
			if r.Chance(0.3) {
				ref = featRef
			}
			pushes = append(pushes, b.add(push(a, ref, fileFor(r, i))))
		}
	}
	p2 := pol.Clone()
	p2.Files["targets"].Version = 2
	p2.Files["targets"].Rules = append(p2.Files["targets"].Rules, world.RuleSpec{Name: "protect-release", Patterns: []string{"git:" + relRef}, Principals: []string{world.GetKey(devs[0]).ID}, Threshold: 1})
	switch c16States[state] {
	case "staging-ahead":
		b.add(world.Op{Kind: "stage", Actor: 0, Policy: p2})
	case "policy-ahead":
		b.add(world.Op{Kind: "byzPolicyDirect", Actor: 0})
	case "diverged":
		b.add(world.Op{Kind: "stage", Actor: 0, Policy: p2})
		b.add(world.Op{Kind: "byzPolicyDirect", Actor: 0})
	case "attestations":
		if len(pushes) > 0 {
			b.add(world.Op{Kind: "approve", Actor: devs[0], Approve: &world.ApproveSpec{Ref: mainRef, FromOp: 0, ToOp: pushes[0], Signers: []int{devs[0]}}})
		}
	}
	// the operation under test
	var t world.Op
	switch c16Ops[op] {
	case "push":
		t = push(devs[r.Intn(len(devs))], mainRef, fileFor(r, 99))
	case "annotate":
		if len(pushes) == 0 {
			return nil
		}
		t = world.Op{Kind: "annotate", Actor: devs[0], Targets: []int{pushes[r.Intn(len(pushes))]}, Skip: r.Chance(0.7), Msg: "note", EntryKey: -2}
	case "propagation":
		if len(pushes) == 0 {
			return nil
		}
		t = world.Op{Kind: "propagation", Actor: devs[0], Ref: mainRef, Base: "", Upstream: "https://example.com/up", EntryKey: -2}
	case "stage":
		p3 := p2.Clone()
		p3.Files["targets"].Version = 3
		if c16States[state] == "empty" || c16States[state] == "first-policy" {
			p3 = pol.Clone()
			if r.Chance(0.5) {
				p3.Files["targets"].Version = 2
			}
		}
		t = world.Op{Kind: "stage", Actor: 0, Policy: p3}
	case "apply":
		if c16States[state] == "empty" {
			return nil
		}
		t = world.Op{Kind: "apply", Actor: 0}
	case "approve":
		if len(pushes) == 0 {
			return nil
		}
		t = world.Op{Kind: "approve", Actor: devs[0], Approve: &world.ApproveSpec{Ref: mainRef, FromOp: 0, ToOp: pushes[len(pushes)-1], Signers: []int{devs[0]}}}
	case "reconcileStaging":
		if c16States[state] == "empty" || c16States[state] == "first-policy" {
			return nil
		}
		t = world.Op{Kind: "reconcileStaging", Actor: 0}
	case "autoskip":
		if len(pushes) < 2 {
			return nil
		}
		// a history rewrite on main first, so that there is something to skip
		b.add(world.Op{Kind: "push", Actor: devs[0], Ref: mainRef, Base: "root", Files: map[string]string{"rewritten": "x"}, CommitKey: devs[0], EntryKey: -2})
		t = world.Op{Kind: "autoskip", Actor: devs[0], Ref: mainRef}
	case "approveAgain":
		if len(pushes) == 0 {
			return nil
		}
		// a second signature on an existing authorization (or a first one if none exists)
		b.add(world.Op{Kind: "approve", Actor: devs[0], Approve: &world.ApproveSpec{Ref: mainRef, FromOp: 0, ToOp: pushes[len(pushes)-1], Signers: []int{devs[0]}}})
		t = world.Op{Kind: "approve", Actor: devs[len(devs)-1], Approve: &world.ApproveSpec{Ref: mainRef, FromOp: 0, ToOp: pushes[len(pushes)-1], Signers: []int{devs[len(devs)-1]}}}
	}
	if c16Ops[op] == "annotate" && len(pushes) >= 2 && r.Chance(0.5) {
		t.Targets = []int{pushes[0], pushes[len(pushes)-1]}
	}
	c.Config["target"] = b.add(t)
	c.Config["state"] = state
	c.Config["op"] = op
	c.Flags["warm"] = r.Chance(0.5)
	c.Flags["allReads"] = tier == "thorough" || r.Chance(0.3)
	c.Ops = b.ops
	return c
}

type semState struct {
	trees      map[string]string // ref -> tree of tip
	consistent map[string]bool   // managed ref tip == latest entry target
	chain      string
}

func (s semState) equal(o semState) (bool, string) {
	for _, k := range sortedKeys(s.trees) {
		if s.trees[k] != o.trees[k] {
			return false, fmt.Sprintf("%s holds tree %s, uninterrupted run has %s", k, short10(s.trees[k]), short10(o.trees[k]))
		}
	}
	for _, k := range sortedKeys(o.trees) {
		if s.trees[k] != o.trees[k] {
			return false, fmt.Sprintf("%s holds tree %s, uninterrupted run has %s", k, short10(s.trees[k]), short10(o.trees[k]))
		}
	}
	for k, v := range s.consistent {
		if v != o.consistent[k] {
			return false, fmt.Sprintf("%s ref/entry consistency differs (%v vs %v)", k, v, o.consistent[k])
		}
	}
	return true, ""
}

func short10(s string) string {
	if len(s) > 10 {
		return s[:10]
	}
	if s == "" {
		return "(none)"
	}
	return s
}

func semanticState(st *simstore.Store, extraRefs []string) semState {
	raw, problem := world.WalkRSL(st)
	s := semState{trees: map[string]string{}, consistent: map[string]bool{}, chain: problem}
	refs := append(append([]string{}, managedRefs...), extraRefs...)
	for _, r := range refs {
		tip, _ := st.GetRef(r)
		s.trees[r] = treeOf(st, tip)
		le := latestEntryFor(raw, r)
		if tip != "" || le != "" {
			s.consistent[r] = tip == le
		}
	}
	return s
}

// verdicts computes the full-verification verdict of each ref on a fork of the
// store by a fresh, cache-less process without faults.
func verdicts(st *simstore.Store, refs []string) map[string]string {
	fork := st.Fork()
	env := sched.NewEnv()
	env.RecordEvents = false
	p := env.NewProc("observer")
	h := &sched.Handle{St: fork, P: p, Name: "observer", LocalNS: "observer"}
	w := &world.World{}
	out := map[string]string{}
	for _, r := range refs {
		var v world.Verdict
		o := p.RunOp(0, func() error {
			v = w.Verify(h, &world.Op{Ref: r, Mode: "full"})
			return nil
		})
		if o.Panic != nil {
			out[r] = fmt.Sprintf("panic:%v", o.Panic)
			continue
		}
		out[r] = v.String()
	}
	return out
}

func (d c16) Execute(c *core.Case) *core.Result {
	if c.Engine == "git" {
		return d.executeGit(c)
	}
	res := &core.Result{}
	target := c.Config["target"]
	var top *world.Op
	prefix := []world.Op{}
	for i := range c.Ops {
		if c.Ops[i].ID == target {
			top = &c.Ops[i]
		} else if c.Ops[i].ID < target {
			prefix = append(prefix, c.Ops[i])
		}
	}
	if top == nil {
		res.StateKey = "no-target"
		return res
	}
	w := world.New(4)
	w.Env.RecordEvents = false
	for i := range prefix {
		op := &prefix[i]
		if op.Kind == "byzPolicyDirect" {
			if err := byzPolicyDirect(w); err != nil {
				res.StateKey = "prefix-skip"
				return res
			}
			continue
		}
		out := w.Exec(op)
		if out.Panic != nil {
			res.HarnessErr = fmt.Sprintf("panic in prefix op %d: %v", op.ID, out.Panic)
			return res
		}
		if out.Err != nil {
			// a prefix that does not build (after minimisation) is not a case
			res.StateKey = "prefix-fails"
			res.Stat("prefix_fails", 1)
			return res
		}
	}
	actor := w.Actors[top.Actor]
	extra := []string{}
	if top.Ref != "" && !strings.HasPrefix(top.Ref, "refs/gittuf/") {
		extra = append(extra, top.Ref)
	}
	verifyRefs := []string{mainRef, featRef}
	s0 := w.St.Snapshot()
	tip0 := rslTip(w.St)
	sem0 := semanticState(w.St, extra)
	diverged0 := false
	if pt, ok := w.St.GetRef(policyRef); ok {
		if stt, ok := w.St.GetRef(stagingRef); ok && pt != stt {
			a1, _ := w.St.IsAncestor(pt, stt)
			a2, _ := w.St.IsAncestor(stt, pt)
			diverged0 = !a1 && !a2
		}
	}
	truthLen := len(w.Entries)
	resetTruth := func() {
		w.Entries = w.Entries[:truthLen]
	}
	prepare := func() {
		w.St.Restore(s0)
		resetTruth()
		actor.Proc.Restart()
		w.Env.Faults = nil
		if c.Flags["warm"] {
			actor.Proc.RunOp(0, func() error {
				_, _, _ = rsl.GetFirstEntry(actor.H)
				return nil
			})
		}
	}

	// fault-free dry run, recording the trace
	prepare()
	w.Env.RecordEvents = true
	w.Env.Events = nil
	out := w.Exec(top)
	w.Env.RecordEvents = false
	if out.Panic != nil {
		res.HarnessErr = fmt.Sprintf("panic in fault-free run of target op: %v", out.Panic)
		return res
	}
	if out.Err != nil {
		res.StateKey = fmt.Sprintf("dry-fails/%s/%s", c16States[c.Config["state"]], top.Kind)
		res.Stat("dry_run_fails", 1)
		return res
	}
	trace := []sched.Desc{}
	writes := 0
	kinds := []string{}
	for _, ev := range w.Env.Events {
		if ev.Desc.Op != top.ID {
			continue
		}
		trace = append(trace, ev.Desc)
		kinds = append(kinds, ev.Desc.Kind)
		if ev.Write {
			writes++
		}
	}
	semF := semanticState(w.St, extra)
	v0 := map[string]string{}
	v1 := verdicts(w.St, verifyRefs)
	{
		w.St.Restore(s0)
		v0 = verdicts(w.St, verifyRefs)
	}
	var madeCommit string
	if ct, ok := w.Commits[top.ID]; ok {
		madeCommit = ct.ID
	}
	res.Steps = len(trace)

	// fault plans
	plans := []sched.Fault{}
	if len(c.Faults) > 0 {
		plans = c.Faults
	} else {
		if len(trace) > 0 {
			plans = append(plans, sched.Fault{At: trace[0], Type: sched.FCrashBefore})
		}
		for _, dsc := range trace {
			isWrite := false
			switch dsc.Kind {
			case "SetReference", "DeleteReference", "Commit.cas", "Commit.object", "Commit.read", "ResetDueToError", "WriteBlob", "WriteTree", "GetReference":
				isWrite = true
			}
			if !isWrite && !c.Flags["allReads"] {
				continue
			}
			plans = append(plans, sched.Fault{At: dsc, Type: sched.FIOError}, sched.Fault{At: dsc, Type: sched.FCrashAfter})
		}
	}
	fired := map[sched.FaultType]int{}
	rollbacks := 0
	w.Env.OnEvent = func(ev *sched.Event) {
		if ev.Desc.Op == top.ID && (ev.Desc.Kind == "ResetDueToError" || ev.Desc.Kind == "DeleteReference") {
			rollbacks++
		}
	}
	defer func() { w.Env.OnEvent = nil }()
	for _, plan := range plans {
		prepare()
		w.Env.Faults = []sched.Fault{plan}
		before := w.Env.Fired[plan.Type]
		fo := w.Exec(top)
		w.Env.Faults = nil
		if fo.Panic != nil {
			res.Violate("C16", "panic", fmt.Sprintf("operation %s panicked with %s at %s: %v", top.Kind, plan.Type, plan.At, fo.Panic), top.ID, "op="+top.Kind, "fault="+string(plan.Type))
			res.Violations[len(res.Violations)-1].Faults = []sched.Fault{plan}
			continue
		}
		if w.Env.Fired[plan.Type] == before {
			res.Stat("fault_not_reached", 1)
			continue
		}
		fired[plan.Type]++
		res.Stat("faulted_executions", 1)
		feat := []string{"op=" + top.Kind, "fault=" + string(plan.Type)}
		if diverged0 {
			feat = append(feat, "policy-and-staging-diverged")
		}
		sub := func(class, detail string) {
			res.Violate("C16", class, fmt.Sprintf("%s of %s in state %s, %s at %s: %s", top.Kind, actor.Name, c16States[c.Config["state"]], plan.Type, plan.At, detail), top.ID, feat...)
			res.Violations[len(res.Violations)-1].Faults = []sched.Fault{plan}
		}
		problem := chainProblem(w.St, []string{tip0})
		switch plan.Type {
		case sched.FIOError:
			if fo.Crashed {
				res.HarnessErr = "io-error produced a crash"
				return res
			}
			sem := semanticState(w.St, extra)
			if fo.Err == nil {
				if ok, why := sem.equal(semF); !ok {
					sub("error-swallowed", "the operation reported success but "+why)
				}
				continue
			}
			if problem != "" {
				sub("chain-broken", problem)
				continue
			}
			raw, _ := world.WalkRSL(w.St)
			bad := ""
			for _, r := range managedRefs {
				tip, _ := w.St.GetRef(r)
				tip0r := s0RefOf(s0, w, r)
				if tip == tip0r {
					continue
				}
				if tip != "" && tip == latestEntryFor(raw, r) {
					continue
				}
				bad = fmt.Sprintf("%s moved from %s to %s but its latest log entry records %s", r, short10(tip0r), short10(tip), short10(latestEntryFor(raw, r)))
				break
			}
			if bad != "" {
				f2 := append([]string{}, feat...)
				sub2 := func(class, detail string) {
					res.Violate("C16", class, fmt.Sprintf("%s of %s in state %s, %s at %s: %s", top.Kind, actor.Name, c16States[c.Config["state"]], plan.Type, plan.At, detail), top.ID, f2...)
					res.Violations[len(res.Violations)-1].Faults = []sched.Fault{plan}
				}
				if _, had := sem0.trees[managedOf(bad)]; had && sem0.trees[managedOf(bad)] == "" {
					f2 = append(f2, "ref-did-not-exist-before")
				}
				sub2("ref-inconsistent", bad)
				continue
			}
			// retry once the fault has cleared
			actor.Proc.Restart()
			retry := *top
			if madeCommit != "" && (top.Kind == "push" || top.Kind == "fix") {
				// the developer still has the commit; re-record it
				w.St.SetRef(top.Ref, madeCommit)
				retry = world.Op{ID: top.ID, Kind: "record", Actor: top.Actor, Ref: top.Ref, Base: "", EntryKey: top.EntryKey}
			}
			ro := w.Exec(&retry)
			if ro.Panic != nil {
				sub("panic", fmt.Sprintf("retry panicked: %v", ro.Panic))
				continue
			}
			if ro.Err != nil {
				sub("retry-fails", fmt.Sprintf("first attempt failed with %q; retry without faults failed with %q", fo.Err, ro.Err))
				continue
			}
			if p2 := chainProblem(w.St, []string{tip0}); p2 != "" {
				sub("chain-broken", "after retry: "+p2)
				continue
			}
			semR := semanticState(w.St, extra)
			if ok, why := semR.equal(semF); !ok {
				sub("retry-diverges", why)
			}
		case sched.FCrashAfter, sched.FCrashBefore:
			if !fo.Crashed {
				res.HarnessErr = "crash fault did not crash"
				return res
			}
			if problem != "" {
				sub("chain-broken", problem)
				continue
			}
			vc := verdicts(w.St, verifyRefs)
			for _, r := range verifyRefs {
				if vc[r] != v0[r] && vc[r] != v1[r] {
					sub("crash-verdict-outside-before-after", fmt.Sprintf("verdict for %s after crash is %s; before the operation %s, after the uninterrupted operation %s", r, vc[r], v0[r], v1[r]))
					break
				}
			}
		}
	}
	for k, v := range fired {
		res.Stat("fault:"+string(k), v)
	}
	res.Digest = core.HashStrings(strings.Join(kinds, ","), fmt.Sprint(len(plans)))
	res.StateKey = core.HashStrings(c16States[c.Config["state"]], top.Kind, strings.Join(kinds, ","), fmt.Sprint(len(prefix)))
	res.Nontrivial = writes > 0 && (len(c.Faults) > 0 || (fired[sched.FIOError] > 0 && fired[sched.FCrashAfter] > 0))
	res.Sample = map[string]any{
		"state": c16States[c.Config["state"]], "operation": top.Kind, "prefix_ops": describeOps(prefix),
		"trace_calls": len(trace), "fault_plans": len(plans), "trace_head": headStrings(trace, 12),
		"verdict_before": v0, "verdict_after": v1,
	}
	res.Stat("probe:rollback_executed_after_fault", boolInt(rollbacks > 0))
	return res
}

func managedOf(detail string) string {
	for _, r := range managedRefs {
		if strings.HasPrefix(detail, r+" ") {
			return r
		}
	}
	return ""
}

func s0RefOf(s0 *simstore.Snapshot, w *world.World, ref string) string {
	// Restore-free lookup: fork a store restored to s0
	tmp := &simstore.Store{Pool: w.St.Pool, Refs: map[string]string{}, Clock: &simstore.Clock{}}
	tmp.Restore(s0)
	v, _ := tmp.GetRef(ref)
	return v
}

func headStrings(t []sched.Desc, n int) []string {
	out := []string{}
	for i, d := range t {
		if i >= n {
			out = append(out, "...")
			break
		}
		out = append(out, d.String())
	}
	return out
}

func containsKind(kinds []string, k string) bool {
	for _, x := range kinds {
		if x == k {
			return true
		}
	}
	return false
}

func boolInt(b bool) int {
	if b {
		return 1
	}
	return 0
}

// byzPolicyDirect models a change landing in refs/gittuf/policy without going
// through staging (what controller propagation does): a commit carrying the
// same tree on top of the policy tip plus its log entry, written by actor 0.
func byzPolicyDirect(w *world.World) error {
	tip, ok := w.St.GetRef(policyRef)
	if !ok {
		return fmt.Errorf("no policy")
	}
	c, err := w.St.CommitInfo(tip)
	if err != nil {
		return err
	}
	id, err := w.St.Pool.PutCommit(&simstore.CommitSpec{Tree: c.Tree, Parents: []string{tip}, Message: "propagated\n", Name: "actor0", Email: "actor0@example.com", When: w.St.Clock.Tick()})
	if err != nil {
		return err
	}
	w.St.SetRef(policyRef, id)
	a := w.Actors[0]
	out := a.Proc.RunOp(0, func() error { return world.RecordEntry(a.H, policyRef, id, -2) })
	w.SyncTruth(0, 0, a.Key, nil)
	return out.Err
}
