package props

import (
	"fmt"
	"strings"

	"github.com/gittuf/gittuf/verifsim/core"
	"github.com/gittuf/gittuf/verifsim/model"
	"github.com/gittuf/gittuf/verifsim/world"
)

// The SimStore slice of C10: the verdict side of file rules ("a change to a
// protected path by a commit that is neither signed by nor accompanied by
// approvals from enough principals authorized for that path makes verification
// fail") needs many more histories than real git can run here — thresholds,
// approvals, delegated file namespaces, several commits per push, rules coming
// and going. Path names are ordinary in this slice; verbatim handling of odd
// names is the git-engine cases' subject.

var c10simPaths = []string{"cfg/prod.key", "secret/a", "secret/deep/x", "secret/deep/y", "docs/readme", "src/main.go", "src/lib/util.go"}

// c10IsGitCase: 6 of every 16 consecutive indexes are real-git cases. With the
// 16 workers of a check (worker = index mod 16) six workers run only git cases,
// which are bound by process spawns, and ten run only SimStore cases, which are
// bound by CPU; with another worker count the mix is the same by count.
func c10IsGitCase(idx uint64) bool { return idx%16 < 6 }

// c10GitSeq numbers the git cases consecutively (stratification by sequence number).
func c10GitSeq(idx uint64) uint64 { return (idx/16)*6 + idx%16 }

// c10simPolicy draws a policy with a branch rule and 0-4 file rules.
func c10simPolicy(r *core.Rand, version int) *world.PolicySpec {
	devs := []int{1, 2, 3}
	ps := []world.PrincipalSpec{}
	for _, d := range devs {
		ps = append(ps, world.KeyPrincipal(d))
	}
	ps = append(ps, world.KeyPrincipal(outsiderKey))
	id := func(k int) string { return world.GetKey(k).ID }
	pick := func(n int) []string {
		out := []string{}
		for _, k := range subset(r, devs, n) {
			out = append(out, id(k))
		}
		return out
	}
	pol := &world.PolicySpec{
		RootVersion: 1, RootKeys: []int{0}, RootThreshold: 1, TargetsKeys: []int{0}, TargetsThreshold: 1, RootSigners: []int{0},
		Files: map[string]*world.RuleFileSpec{"targets": {Version: version, Principals: ps, Signers: []int{0}}},
	}
	t := pol.Files["targets"]
	// everybody may push to main: the branch rule is not what decides here (sometimes it is)
	mainMembers := pick(3)
	if r.Chance(0.2) {
		mainMembers = pick(r.Range(1, 2))
	}
	t.Rules = append(t.Rules, world.RuleSpec{Name: "protect-main", Patterns: []string{"git:" + mainRef}, Principals: mainMembers, Threshold: 1})
	if r.Chance(0.4) {
		// the branch rule delegates to a rule file that knows nothing about files
		var signer int
		for _, d := range devs {
			if id(d) == mainMembers[0] {
				signer = d
			}
		}
		pol.Files["protect-main"] = &world.RuleFileSpec{Version: 1, Signers: []int{signer},
			Principals: []world.PrincipalSpec{world.KeyPrincipal(outsiderKey)},
			Rules:      []world.RuleSpec{{Name: "main-delegates", Patterns: []string{"git:" + mainRef}, Principals: []string{id(outsiderKey)}, Threshold: 1}}}
	}
	if r.Chance(0.75) {
		n := r.Range(1, 2)
		t.Rules = append(t.Rules, world.RuleSpec{Name: "protect-exact", Patterns: []string{"file:cfg/prod.key"}, Principals: pick(r.Range(n, 3)), Threshold: n})
	}
	if r.Chance(0.75) {
		n := r.Range(1, 2)
		members := subset(r, devs, r.Range(n, 3))
		ids := []string{}
		for _, k := range members {
			ids = append(ids, id(k))
		}
		pats := []string{"file:secret/*"}
		if r.Chance(0.3) {
			pats = append(pats, "file:src/lib/*") // one rule, two namespaces
		}
		t.Rules = append(t.Rules, world.RuleSpec{Name: "protect-secret", Patterns: pats, Principals: ids, Threshold: n})
		if r.Chance(0.4) {
			// the secret namespace is delegated further: the outsider key may change secret/deep/*
			del := &world.RuleFileSpec{Version: 1, Signers: members[:n]}
			del.Principals = []world.PrincipalSpec{world.KeyPrincipal(outsiderKey)}
			del.Rules = []world.RuleSpec{{Name: "secret-deep", Patterns: []string{"file:secret/deep/*"}, Principals: []string{id(outsiderKey)}, Threshold: 1}}
			pol.Files["protect-secret"] = del
		}
	}
	if r.Chance(0.15) {
		t.Rules = append(t.Rules, world.RuleSpec{Name: "all-source", Patterns: []string{"file:src/*"}, Principals: pick(r.Range(1, 3)), Threshold: 1})
	}
	return pol
}

// c10simEdit derives the next policy: file rules come, go or change hands. A
// delegated rule file, once published, stays (removing it is a rollback).
func c10simEdit(r *core.Rand, old *world.PolicySpec, version int) *world.PolicySpec {
	np := old.Clone()
	t := np.Files["targets"]
	t.Version = version
	_, delegated := np.Files["protect-secret"]
	id := func(k int) string { return world.GetKey(k).ID }
	has := func(name string) int {
		for i, rl := range t.Rules {
			if rl.Name == name {
				return i
			}
		}
		return -1
	}
	drop := func(i int) { t.Rules = append(append([]world.RuleSpec{}, t.Rules[:i]...), t.Rules[i+1:]...) }
	switch r.Intn(4) {
	case 0:
		if i := has("protect-exact"); i >= 0 {
			drop(i)
		} else {
			t.Rules = append(t.Rules, world.RuleSpec{Name: "protect-exact", Patterns: []string{"file:cfg/prod.key"}, Principals: []string{id(r.Range(1, 3))}, Threshold: 1})
		}
	case 1:
		if i := has("protect-exact"); i >= 0 {
			// the path changes hands
			t.Rules[i].Principals = []string{id(r.Range(1, 3))}
			t.Rules[i].Threshold = 1
		}
	case 2:
		if !delegated {
			// no file rule at all any more
			keep := []world.RuleSpec{}
			for _, rl := range t.Rules {
				if strings.HasPrefix(rl.Patterns[0], "git:") {
					keep = append(keep, rl)
				}
			}
			t.Rules = keep
		}
	case 3:
		if has("all-source") < 0 {
			t.Rules = append(t.Rules, world.RuleSpec{Name: "all-source", Patterns: []string{"file:src/*"}, Principals: []string{id(r.Range(1, 3))}, Threshold: 1})
		}
	}
	return np
}

func (c10) generateSim(r *core.Rand, tier string, idx uint64) *core.Case {
	c := &core.Case{Property: "C10", Engine: "simstore", Config: map[string]int{}, Flags: map[string]bool{}}
	b := &opBuilder{}
	pol := c10simPolicy(r, 1)
	b.add(world.Op{Kind: "stage", Actor: 0, Policy: pol})
	b.add(world.Op{Kind: "apply", Actor: 0})
	nPush := r.Range(1, 4)
	if tier == "thorough" {
		nPush = r.Range(1, 7)
	}
	lastEntry, lastCommit := 0, 0
	honest := r.Chance(0.35)
	version := 1
	for p := 0; p < nPush; p++ {
		if p > 0 && r.Chance(0.2) {
			// the rules change between pushes (file rules may disappear or appear)
			version++
			pol = c10simEdit(r, pol, version)
			b.add(world.Op{Kind: "stage", Actor: 0, Policy: pol})
			b.add(world.Op{Kind: "apply", Actor: 0})
		}
		nC := r.Range(1, 3)
		side := 0
		for k := 0; k < nC; k++ {
			files := map[string]string{}
			for j := r.Range(1, 2); j > 0; j-- {
				path := c10simPaths[r.Intn(len(c10simPaths))]
				if r.Chance(0.1) && lastCommit != 0 {
					files[path] = "" // delete
				} else {
					files[path] = fmt.Sprintf("v%d", r.Intn(1000))
				}
			}
			signer := r.Range(1, 3)
			switch {
			case honest:
				signer = c10simHonestSigner(r, pol, files)
			case r.Chance(0.15):
				signer = outsiderKey
			case r.Chance(0.1):
				signer = -1
			}
			op := world.Op{Kind: "commit", Actor: 1, Ref: mainRef, Files: files, CommitKey: signer}
			if lastCommit != 0 {
				op.Base = fmt.Sprintf("op:%d", lastCommit)
			} else {
				op.Base = "root"
			}
			if k == 1 && nC == 3 && r.Chance(0.25) && lastCommit != 0 {
				// a side branch that the third commit merges
				side = b.add(op)
				continue
			}
			if side != 0 {
				op.Merge = fmt.Sprintf("op:%d", side)
				side = 0
			}
			lastCommit = b.add(op)
		}
		// approvals for exactly this change, by some developers
		for _, k := range []int{1, 2, 3} {
			if r.Chance(0.3) {
				b.add(world.Op{Kind: "approve", Actor: k, Approve: &world.ApproveSpec{Ref: mainRef, FromOp: lastEntry, ToOp: lastCommit, Signers: []int{k}}})
			}
		}
		rec := r.Range(1, 3)
		lastEntry = b.add(world.Op{Kind: "record", Actor: rec, Ref: mainRef, Base: fmt.Sprintf("op:%d", lastCommit), EntryKey: -2})
		if r.Chance(0.25) {
			b.add(world.Op{Kind: "verify", Actor: r.Range(0, 3), Ref: mainRef, Mode: []string{"full", "latest"}[r.Intn(2)]})
		}
	}
	c.Ops = b.ops
	return c
}

// c10simHonestSigner picks, when one exists, a developer whose signature alone
// satisfies every threshold-1 file rule matching the changed paths.
func c10simHonestSigner(r *core.Rand, pol *world.PolicySpec, files map[string]string) int {
	cands := []int{}
	for _, k := range []int{1, 2, 3, outsiderKey} {
		ok := true
		for path := range files {
			vs := model.Walk(pol, "file:"+path)
			if len(vs) == 0 {
				continue
			}
			met := false
			for _, v := range vs {
				if model.Count(v.Principals, model.Signers{ObjectKey: k}, nil) >= 1 && v.Threshold <= 1 {
					met = true
				}
			}
			if !met {
				ok = false
			}
		}
		if ok {
			cands = append(cands, k)
		}
	}
	if len(cands) == 0 {
		return r.Range(1, 3)
	}
	return cands[r.Intn(len(cands))]
}

// c10simExpect: the verdict the statement fixes for verifying main.
func c10simExpect(l *model.Log, mode string) (expectation, string, []string) {
	pos := l.PositionsForRef(mainRef)
	if len(pos) == 0 {
		return unspecified, "no entries", nil
	}
	examined := pos
	if mode == "latest" {
		examined = pos[len(pos)-1:]
	}
	unspecifiedSeen := ""
	for _, p := range examined {
		if l.PolicyBefore(p) == nil {
			return unspecified, "entry before any policy", nil
		}
		e := l.W.Entries[p]
		d := l.Decide(p)
		if !d.Authorized {
			if unspecifiedSeen != "" {
				return unspecified, unspecifiedSeen, nil
			}
			return mustReject, fmt.Sprintf("entry #%d (op %d) is not authorised for the branch: %s", p, e.OpID, d.Why), []string{"branch-rule-unmet"}
		}
		fd := l.DecideFiles(p)
		if fd.Unspecified {
			unspecifiedSeen = fd.Why
			continue
		}
		if !fd.OK {
			if unspecifiedSeen != "" {
				return unspecified, unspecifiedSeen, nil
			}
			feats := []string{"file-rule-unmet"}
			pol := l.PolicyBefore(p)
			if _, ok := pol.Files["protect-secret"]; ok {
				feats = append(feats, "delegated-file-namespace")
			}
			if len(l.SignersFor(p).EnvelopeKeys) > 0 {
				feats = append(feats, "approvals-present")
			}
			return mustReject, fmt.Sprintf("entry #%d (op %d): %s", p, e.OpID, fd.Why), feats
		}
	}
	if unspecifiedSeen != "" {
		return unspecified, unspecifiedSeen, nil
	}
	return mustAccept, "every examined entry is authorised for the branch and every protected path changed by a newly introduced commit is vouched for", nil
}

func (d c10) executeSim(c *core.Case) *core.Result {
	res := &core.Result{}
	run := runPolicyCase(c, []int{0, 1, 2, 3, outsiderKey}, nil, []string{mainRef}, nil)
	if run.Harness != "" {
		res.HarnessErr = run.Harness
		return res
	}
	if run.Panic != "" {
		res.Violate("C10", "panic", run.Panic, 0)
		return res
	}
	verdicts := []string{}
	specified, protectedTouched, thresholdTwo, approvalsDecisive := 0, false, false, false
	for _, rec := range run.Recs {
		mode := modeOf(&rec.Op)
		if mode != "full" && mode != "latest" {
			continue
		}
		l := truncatedLog(run, rec.LogLen)
		exp, why, feats := c10simExpect(l, mode)
		v := rec.Verdict
		verdicts = append(verdicts, mode+":"+v.Class)
		switch exp {
		case mustAccept:
			specified++
			res.Stat("verdicts_must_accept", 1)
			if v.Class != "accept" {
				res.Violate("C10", "authorised-change-rejected", fmt.Sprintf("%s verification of main returned %s (%s) although %s", mode, v.Class, v.Err, why), rec.Op.ID, "mode="+mode, "engine=simstore")
			}
		case mustReject:
			specified++
			res.Stat("verdicts_must_reject", 1)
			if v.Class == "accept" {
				res.Violate("C10", "protected-path-change-accepted", fmt.Sprintf("%s verification of main succeeded although %s", mode, why), rec.Op.ID, append(feats, "mode="+mode, "engine=simstore")...)
			}
		default:
			res.Stat("verdicts_unspecified", 1)
		}
		if len(res.Violations) > 0 {
			break
		}
	}
	pattern := []string{}
	for i, e := range run.W.Entries {
		if e.Kind != "reference" || e.Ref != mainRef {
			continue
		}
		fd := run.L.DecideFiles(i)
		if fd.Protected {
			protectedTouched = true
		}
		pol := run.L.PolicyBefore(i)
		if pol != nil {
			for _, r := range pol.Files["targets"].Rules {
				if r.Threshold >= 2 && strings.HasPrefix(r.Patterns[0], "file:") {
					thresholdTwo = true
				}
			}
		}
		if fd.OK && fd.Protected && len(run.L.SignersFor(i).EnvelopeKeys) > 0 {
			approvalsDecisive = true
		}
		pattern = append(pattern, fmt.Sprintf("%v/%v/%v/%v", run.L.Decide(i).Authorized, fd.OK, fd.Unspecified, fd.Protected))
	}
	res.Steps = len(c.Ops)
	res.Digest = core.HashStrings(strings.Join(verdicts, ","), strings.Join(pattern, ","), refDigest(run.W.St))
	res.StateKey = "sim/" + core.HashStrings(strings.Join(verdicts, ","), strings.Join(pattern, ","))
	res.Nontrivial = protectedTouched && specified > 0
	res.Stat("probe:sim_protected_path_changed", boolInt(protectedTouched))
	res.Stat("probe:sim_file_rule_threshold_2", boolInt(thresholdTwo))
	res.Stat("probe:sim_approvals_present_on_accepted_protected_change", boolInt(approvalsDecisive))
	res.Stat("sim_cases", 1)
	res.Sample = map[string]any{"engine": "simstore", "ops": describeOps(c.Ops), "entries(branch-ok/files-ok/unspecified/protected)": pattern, "verdicts": verdicts}
	return res
}
