package props

import (
	"fmt"
	"strings"

	"github.com/gittuf/gittuf/verifsim/core"
	"github.com/gittuf/gittuf/verifsim/sched"
	"github.com/gittuf/gittuf/verifsim/world"
)

// C19 — mergeability predictions agree with verification of the predicted
// merge.
type c19 struct{}

func init() {
	core.Register(c19{})
	core.TierTable["C19"] = map[string]core.TierCfg{"quick": {Runs: 12000, BudgetS: 75}, "thorough": {Runs: 500000, BudgetS: 1200}}
}

func (c19) ID() string    { return "C19" }
func (c19) Level() string { return "exploration" }
func (c19) Rule() string {
	return "A case is a seeded situation: a branch rule needing 1-3 of persons 1-3 (person 4 defined but not trusted), optionally a global threshold rule, optionally a file rule (1-2 of a subset of the persons) on the first or on every feature file, a feature history (1-3 commits by various actors) that is ahead of or diverged from the branch, and prior approvals for exactly the predicted merge (authorizations and code-review approvals by any subset of persons, possibly stale). The real VerifyMergeable (in a third of the cases its for-a-commit form) gives the prediction; then, for each candidate recorder (a trusted person who has not approved, one who has, the untrusted person 4, an outsider key, unsigned) the same operations are re-executed from scratch (exact replay = a fork of the same state), the fast-forward or the pre-built merge commit carrying the predicted tree is recorded by that candidate, and VerifyRefFull is run. Oracle: the three-way contract of the statement per recorder. Distinct = distinct (threshold, global rule, approval set, shape, prediction, per-recorder outcome vector); non-trivial = the prediction was 'possible' in at least one form or approvals were present."
}
func (c19) Components() map[string]string {
	return map[string]string{"internal/policy (verifyMergeable, verifier)": "real", "internal/attestations": "real", "GetMergeTree": "stub (SimStore per-path three-way merge) in SimStore cases; real pkg/gitinterface GetMergeTree (`git merge-tree`) in the real-git slice (workers 0-1, every 25th of their cases)", "gitstore.Storer": "stub (SimStore)"}
}
func (c19) Assumptions() []string {
	return []string{"the branch's previous entry is unskipped and no policy or attestation entry lies between prediction and merge (by construction)", "with a file rule present only fast-forward merges are compared: a recorded merge commit is itself subject to the file rule and signed by someone the prediction cannot know"}
}

func (d c19) Generate(r *core.Rand, tier string, idx uint64) *core.Case {
	if c19IsGitCase(idx) {
		return d.generateGit(r, tier, idx)
	}
	c := &core.Case{Property: "C19", Engine: "simstore", Config: map[string]int{}, Flags: map[string]bool{}}
	b := &opBuilder{}
	thr := r.Range(1, 3)
	pol := c09Policy(1, r.Chance(0.7))
	b.add(world.Op{Kind: "stage", Actor: 0, Policy: pol})
	b.add(world.Op{Kind: "apply", Actor: 0})
	a0 := r.Range(1, 3)
	mainA := b.add(world.Op{Kind: "push", Actor: a0, Ref: mainRef, Files: map[string]string{"base.txt": "base"}, CommitKey: a0, EntryKey: -2})
	nF := r.Range(1, 3)
	featFiles := map[string]string{}
	lastF := 0
	for i := 0; i < nF; i++ {
		fa := r.Range(1, 4)
		f := map[string]string{fmt.Sprintf("feat%d.txt", i): fmt.Sprintf("feature-%d", r.Intn(100))}
		for k, v := range f {
			featFiles[k] = v
		}
		op := world.Op{Kind: "push", Actor: fa, Ref: featRef, Files: f, CommitKey: fa, EntryKey: -2}
		if i == 0 {
			op.Base = fmt.Sprintf("op:%d", mainA)
		}
		lastF = b.add(op)
	}
	diverged := r.Chance(0.4)
	fileRule := r.Chance(0.3)
	if fileRule && r.Chance(0.8) {
		diverged = false // with a merge commit of its own the comparison is not made (see Execute)
	}
	lastMain := mainA
	if diverged {
		a1 := r.Range(1, 3)
		lastMain = b.add(world.Op{Kind: "push", Actor: a1, Ref: mainRef, Files: map[string]string{"main2.txt": "more"}, CommitKey: a1, EntryKey: -2})
	}
	// raise the threshold (and maybe declare a global rule) now
	p2 := pol.Clone()
	p2.Files["targets"].Version = 2
	p2.Files["targets"].Rules[0].Threshold = thr
	if r.Chance(0.3) {
		p2.GlobalRules = []world.GlobalRuleSpec{{Name: "global-main", Kind: "threshold", Patterns: []string{"git:" + mainRef}, Threshold: r.Range(1, 3)}}
		p2.RootVersion = 2
	}
	if fileRule {
		// the first feature file is protected: 1-2 of a subset of persons 1-3 must vouch for commits changing it
		n := r.Range(1, 2)
		ids := []string{}
		for _, k := range subset(r, []int{1, 2, 3}, r.Range(n, 3)) {
			ids = append(ids, fmt.Sprintf("person-%d", k))
		}
		p2.Files["targets"].Rules = append(p2.Files["targets"].Rules, world.RuleSpec{Name: "protect-feat0", Patterns: []string{[]string{"file:feat0.txt", "file:feat*"}[r.Intn(2)]}, Principals: ids, Threshold: n})
	}
	b.add(world.Op{Kind: "stage", Actor: 0, Policy: p2})
	b.add(world.Op{Kind: "apply", Actor: 0})
	target := lastF
	if diverged {
		target = b.add(world.Op{Kind: "commit", Actor: r.Range(1, 4), Ref: mainRef, Merge: fmt.Sprintf("op:%d", lastF), Files: featFiles, CommitKey: -1})
	}
	// approvals
	nA := r.Range(0, 3)
	used := map[int]bool{}
	for i := 0; i < nA; i++ {
		p := r.Range(1, 4)
		if used[p] && r.Chance(0.7) {
			continue
		}
		used[p] = true
		ap := &world.ApproveSpec{Ref: mainRef, FromOp: lastMain, ToOp: target}
		if r.Chance(0.12) {
			ap.FromOp = mainA // possibly stale
		}
		if p2.Apps[0].Trusted && r.Chance(0.35) {
			ap.App, ap.AppKey, ap.Approvers = appName, appKey, []string{fmt.Sprintf("user-%d", p)}
			b.add(world.Op{Kind: "approve", Actor: 5, Approve: ap})
		} else {
			ap.Signers = []int{p}
			b.add(world.Op{Kind: "approve", Actor: p, Approve: ap})
		}
	}
	c.Config["target"] = target
	c.Config["thr"] = thr
	c.Flags["diverged"] = diverged
	c.Flags["fileRule"] = fileRule
	c.Ops = b.ops
	return c
}

type c19Candidate struct {
	name  string
	actor int
	key   int // entry key: -2 own, -1 unsigned
}

func (d c19) Execute(c *core.Case) *core.Result {
	if c.Engine == "git" {
		return d.executeGit(c)
	}
	res := &core.Result{}
	keys := []int{0, 1, 2, 3, 4, appKey, outsiderKey, app2Key}
	cands := []c19Candidate{{"person-1", 1, -2}, {"person-2", 2, -2}, {"person-3", 3, -2}, {"person-4-untrusted", 4, -2}, {"outsider", 6, -2}, {"unsigned", 1, -1}}
	type outcome struct {
		pred   string
		accept string
	}
	outs := []outcome{}
	var predNeed bool
	var predClass string
	var approvers map[int]bool
	anyApprovals := false
	for ci, cand := range cands {
		run := runPolicyCase(c, keys, nil, nil, nil)
		if run.Harness != "" {
			res.HarnessErr = run.Harness
			return res
		}
		if run.Panic != "" {
			res.Violate("C19", "panic", run.Panic, 0)
			return res
		}
		w := run.W
		tc, ok := w.Commits[c.Config["target"]]
		if !ok {
			res.StateKey = "no-target"
			return res
		}
		// prediction by a fresh observer
		obs := w.Env.NewProc("predictor")
		oh := &sched.Handle{St: w.St, P: obs, Name: "predictor", LocalNS: "predictor"}
		var need bool
		var perr error
		o := obs.RunOp(0, func() error {
			need, perr = world.VerifyMergeable(oh, mainRef, featRef)
			if c.Seed%3 == 0 {
				// the other form of the same check: the feature given as a commit
				if pf := run.L.PositionsForRef(featRef); len(pf) > 0 {
					need, perr = world.VerifyMergeableForCommit(oh, mainRef, w.Entries[pf[len(pf)-1]].Target)
				}
			}
			return nil
		})
		if o.Panic != nil {
			res.Violate("C19", "panic", fmt.Sprintf("VerifyMergeable panicked: %v", o.Panic), 0)
			return res
		}
		pc := world.Classify(perr)
		if pc == "other" || pc == "injected" {
			// not a policy answer (e.g. merge conflict): nothing is predicted
			res.StateKey = "prediction-error-" + pc
			res.Stat("prediction_not_a_policy_answer", 1)
			return res
		}
		if ci == 0 {
			predNeed, predClass = need, pc
			// who is already counted: persons with a valid approval bound to the predicted change
			approvers = map[int]bool{}
			lastMainPos := run.L.PositionsForRef(mainRef)
			from := "0000000000000000000000000000000000000000"
			if len(lastMainPos) > 0 {
				from = w.Entries[lastMainPos[len(lastMainPos)-1]].Target
			}
			ck := world.ChangeKey(mainRef, from, tc.Tree)
			if w.Att != nil {
				for k := range w.Att.Authorizations[ck] {
					approvers[k] = true
					anyApprovals = true
				}
				for _, rv := range w.Att.Reviews[ck] {
					for _, a := range rv.Approvers {
						var n int
						if _, err := fmt.Sscanf(a, "user-%d", &n); err == nil && rv.SignerKey == appKey {
							approvers[n] = true
							anyApprovals = true
						}
					}
				}
			}
		} else if need != predNeed || pc != predClass {
			res.HarnessErr = "prediction differs between identical executions"
			return res
		}
		// record the merge by this candidate
		rec := world.Op{ID: 5000 + ci, Kind: "record", Actor: cand.actor, Ref: mainRef, Base: fmt.Sprintf("op:%d", c.Config["target"]), EntryKey: cand.key}
		ro := w.Exec(&rec)
		if ro.Panic != nil {
			res.Violate("C19", "panic", fmt.Sprintf("record panicked: %v", ro.Panic), rec.ID)
			return res
		}
		if ro.Err != nil {
			res.HarnessErr = fmt.Sprintf("recording the merge failed: %v", ro.Err)
			return res
		}
		vo := world.Op{ID: 6000 + ci, Kind: "verify", Actor: 0, Ref: mainRef, Mode: "full"}
		w.Actors[0].Proc.Restart()
		out := w.Exec(&vo)
		if out.Panic != nil {
			res.Violate("C19", "panic", fmt.Sprintf("verification panicked: %v", out.Panic), vo.ID)
			return res
		}
		v := w.Verdicts[vo.ID]
		outs = append(outs, outcome{pred: fmt.Sprintf("%s/%v", pc, need), accept: v.Class})
		pred := "not-possible"
		if pc == "accept" && need {
			pred = "possible-signature-needed"
		} else if pc == "accept" {
			pred = "possible-no-signature-needed"
		}
		feats := []string{"prediction=" + pred, "recorder=" + cand.name}
		if pol := run.L.PolicyBefore(len(w.Entries)); pol != nil && pol.Files["targets"] != nil && len(pol.Files["targets"].Rules) > 0 {
			feats = append(feats, fmt.Sprintf("branch-rule-threshold=%d", pol.Files["targets"].Rules[0].Threshold))
		}
		if cand.key == -2 && cand.actor >= 1 && cand.actor <= 3 {
			feats = append(feats, "recorder-is-trusted-for-branch")
		}
		{
			n := 0
			for p := range approvers {
				if p >= 1 && p <= 3 {
					n++
				}
			}
			if n >= c.Config["thr"] {
				feats = append(feats, "approvals-alone-meet-branch-rule")
			}
			if n == 0 {
				feats = append(feats, "no-trusted-approval-counted")
			}
		}
		if pol := run.L.PolicyBefore(len(w.Entries)); pol != nil && len(pol.GlobalRules) > 0 {
			feats = append(feats, "policy-has-global-rule")
		}
		if c.Flags["fileRule"] {
			feats = append(feats, "policy-has-file-rule")
		}
		if c.Flags["fileRule"] && c.Flags["diverged"] {
			// the recorded merge commit itself changes the protected path relative to the
			// branch and carries a signature the prediction cannot know: not compared
			res.Stat("comparisons_skipped_merge_commit_under_file_rule", 1)
			continue
		}
		trustedRecorder := cand.key == -2 && cand.actor >= 1 && cand.actor <= 3
		counted := approvers[cand.actor] && cand.key == -2
		switch pred {
		case "possible-no-signature-needed":
			if v.Class != "accept" {
				res.Violate("C19", "prediction-mismatch", fmt.Sprintf("prediction 'possible, no further signature needed' but the merge recorded by %s does not verify (%s: %s)", cand.name, v.Class, v.Err), vo.ID, feats...)
			}
		case "possible-signature-needed":
			want := trustedRecorder && !counted
			if want && v.Class != "accept" {
				res.Violate("C19", "prediction-mismatch", fmt.Sprintf("prediction 'possible, signature needed' but the merge recorded by %s (trusted, not yet counted) does not verify (%s: %s)", cand.name, v.Class, v.Err), vo.ID, feats...)
			}
			if !want && v.Class == "accept" {
				res.Violate("C19", "prediction-mismatch", fmt.Sprintf("prediction 'possible, signature needed' but the merge recorded by %s (trusted=%v, already counted=%v) verifies", cand.name, trustedRecorder, counted), vo.ID, feats...)
			}
		default:
			if v.Class == "accept" {
				res.Violate("C19", "prediction-mismatch", fmt.Sprintf("prediction 'not possible' (%s) but the merge recorded by %s verifies without new approvals", predClass, cand.name), vo.ID, feats...)
			}
		}
	}
	vec := []string{}
	for _, o := range outs {
		vec = append(vec, o.accept)
	}
	res.Steps = len(c.Ops) * len(cands)
	res.Digest = core.HashStrings(fmt.Sprint(predClass, predNeed), strings.Join(vec, ","), fmt.Sprint(c.Config["thr"], c.Flags["diverged"], c.Flags["fileRule"]), fmt.Sprint(approvers))
	res.StateKey = res.Digest
	res.Nontrivial = predClass == "accept" || anyApprovals
	res.Stat("probe:predicted_signature_needed", boolInt(predClass == "accept" && predNeed))
	res.Stat("probe:predicted_no_signature_needed", boolInt(predClass == "accept" && !predNeed))
	res.Stat("probe:predicted_not_possible", boolInt(predClass != "accept"))
	res.Stat("probe:diverged_merge_commit", boolInt(c.Flags["diverged"]))
	res.Stat("probe:prediction_for_commit_form", boolInt(c.Seed%3 == 0))
	res.Stat("probe:file_rule_on_feature_path", boolInt(c.Flags["fileRule"] && !c.Flags["diverged"]))
	res.Sample = map[string]any{"ops": describeOps(c.Ops), "threshold": c.Config["thr"], "prediction(class/needs-signature)": fmt.Sprintf("%s/%v", predClass, predNeed), "already_counted_persons": fmt.Sprint(approvers), "verdict_per_recorder[p1,p2,p3,p4,outsider,unsigned]": vec}
	return res
}
