package props

import (
	"context"
	"fmt"
	"io"
	"os"
	"path/filepath"
	"strings"

	"github.com/gittuf/gittuf/internal/attestations"
	"github.com/gittuf/gittuf/internal/policy"
	"github.com/gittuf/gittuf/internal/signerverifier/dsse"
	"github.com/gittuf/gittuf/pkg/githash"
	"github.com/gittuf/gittuf/pkg/gitinterface"
	"github.com/gittuf/gittuf/pkg/rsl"
	"github.com/gittuf/gittuf/verifsim/core"
	"github.com/gittuf/gittuf/verifsim/gitx"
	"github.com/gittuf/gittuf/verifsim/simstore"
	"github.com/gittuf/gittuf/verifsim/world"
)

// The real-git slice of C16: the storage operations of the real store are git
// subprocesses, the fault is the k-th subprocess of the operation failing
// (io-error: it is not run and an error is returned; crash: the process stops
// dead right after it). It exercises what the SimStore stub replaces:
// gitinterface's compare-and-set, ResetDueToError and reference deletion.

var c16gitOps = []string{"record", "annotate", "stage", "apply", "attest"}

func c16IsGitCase(idx uint64) bool { return idx%16 < 3 }
func c16GitSeq(idx uint64) uint64  { return (idx/16)*3 + idx%16 }

func (c16) generateGit(r *core.Rand, tier string, idx uint64) *core.Case {
	seq := c16GitSeq(idx)
	c := &core.Case{Property: "C16", Engine: "git", Config: map[string]int{}, Flags: map[string]bool{}}
	c.Config["op"] = int(seq % uint64(len(c16gitOps)))
	c.Config["established"] = int(seq / uint64(len(c16gitOps)) % 2) // 0: nothing recorded yet, 1: policy applied, entries and an approval present
	if c.Config["established"] == 0 && (c16gitOps[c.Config["op"]] == "annotate" || c16gitOps[c.Config["op"]] == "apply") {
		c.Config["established"] = 1
	}
	// which subprocesses of the operation are faulted: a stride through its trace, offset by the case number
	c.Config["offset"] = int(seq / 10 % 12)
	c.Config["stride"] = 4
	if tier == "thorough" {
		c.Config["stride"] = 2
	}
	return c
}

func copyDir(src, dst string) error {
	return filepath.Walk(src, func(p string, info os.FileInfo, err error) error {
		if err != nil {
			return err
		}
		rel, _ := filepath.Rel(src, p)
		target := filepath.Join(dst, rel)
		if info.IsDir() {
			return os.MkdirAll(target, 0o755)
		}
		in, err := os.Open(p)
		if err != nil {
			return err
		}
		defer in.Close()
		out, err := os.OpenFile(target, os.O_CREATE|os.O_WRONLY|os.O_TRUNC, info.Mode())
		if err != nil {
			return err
		}
		defer out.Close()
		_, err = io.Copy(out, in)
		return err
	})
}

type c16gitCrash struct{}

func (d c16) executeGit(c *core.Case) (res *core.Result) {
	res = &core.Result{}
	defer func() {
		gitinterface.VerifExecHook = nil
		gitinterface.VerifExecDoneHook = nil
		if r := recover(); r != nil {
			if he, ok := r.(gitx.HarnessError); ok {
				res = &core.Result{HarnessErr: he.Error()}
				return
			}
			panic(r)
		}
	}()
	sc, err := gitx.NewScratch()
	if err != nil {
		res.HarnessErr = err.Error()
		return res
	}
	defer sc.Close()
	gitx.SetupProcessEnv(sc.Dir)
	base, err := sc.Init("base", false)
	if err != nil {
		res.HarnessErr = err.Error()
		return res
	}
	open := func(r *gitx.Repo) *gitinterface.Repository {
		gi, err := gitinterface.LoadRepository(r.Dir)
		if err != nil {
			panic(gitx.HarnessError{Err: err})
		}
		gi.VerifSetClock(gitx.FixedTime)
		return gi
	}
	mk := func(r *gitx.Repo, tag string) string {
		return r.CommitTree(r.WriteFiles(map[string]string{tag + ".txt": tag}), nil, tag)
	}
	must := func(what string, err error) {
		if err != nil {
			panic(gitx.HarnessError{Err: fmt.Errorf("%s: %w", what, err)})
		}
	}
	opKind := c16gitOps[c.Config["op"]%len(c16gitOps)]
	established := c.Config["established"] == 1
	pol := simplePolicy([]int{1, 2}, 1)
	next := pol.Clone()
	next.Files["targets"].Version = 2
	setupGI := open(base)
	workCommit := mk(base, "work")
	base.SetRef(mainRef, workCommit)
	firstEntry := ""
	approve := func(gi *gitinterface.Repository, key int) error {
		atts, err := attestations.LoadCurrentAttestations(gi)
		if err != nil {
			return err
		}
		tree := base.TreeOf(workCommit)
		stmt, err := attestations.NewReferenceAuthorizationForCommit(mainRef, strings.Repeat("0", 40), tree)
		if err != nil {
			return err
		}
		env, err := dsse.CreateEnvelope(stmt)
		if err != nil {
			return err
		}
		env, err = dsse.SignEnvelope(context.Background(), env, world.GetKey(key).DSSE())
		if err != nil {
			return err
		}
		if existing, err := atts.GetReferenceAuthorizationFor(gi, mainRef, strings.Repeat("0", 40), tree); err == nil {
			env, err = dsse.SignEnvelope(context.Background(), existing, world.GetKey(key).DSSE())
			if err != nil {
				return err
			}
		}
		if err := atts.SetReferenceAuthorization(gi, env, mainRef, strings.Repeat("0", 40), tree); err != nil {
			return err
		}
		return atts.Commit(gi, "approval", true, false)
	}
	if established {
		must("stage", world.CommitPolicy(setupGI, pol, false))
		must("apply", world.ApplyPolicy(setupGI, false))
		other := mk(base, "other")
		base.SetRef("refs/heads/other", other)
		must("entry", rsl.NewReferenceEntry("refs/heads/other", simstore.H(other)).Commit(setupGI, false))
		firstEntry = base.GetRef(rsl.Ref)
		must("approval", approve(setupGI, 1))
		if opKind == "apply" {
			must("stage next", world.CommitPolicy(setupGI, next, false))
		}
	}
	managed := []string{rsl.Ref, policy.PolicyRef, policy.PolicyStagingRef, attestations.Ref}
	run := func(gi *gitinterface.Repository) error {
		switch opKind {
		case "record":
			return rsl.NewReferenceEntry(mainRef, simstore.H(workCommit)).Commit(gi, false)
		case "annotate":
			return rsl.NewAnnotationEntry([]githash.Hash{simstore.H(firstEntry)}, true, "revoke").Commit(gi, false)
		case "stage":
			spec := pol
			if established {
				spec = next
			}
			return world.CommitPolicy(gi, spec, false)
		case "apply":
			return world.ApplyPolicy(gi, false)
		case "attest":
			return approve(gi, 2)
		}
		return fmt.Errorf("unknown op")
	}
	type state struct {
		entries []string // kind|ref|tree-or-target per entry
		trees   map[string]string
		problem string
	}
	observe := func(r *gitx.Repo) state {
		raw, problem := world.WalkRSLGit(r, rsl.Ref)
		st := state{trees: map[string]string{}, problem: problem}
		for _, e := range raw {
			t := e.Target
			if strings.HasPrefix(e.Ref, "refs/gittuf/") && t != "" {
				t = r.TreeOf(t)
			}
			st.entries = append(st.entries, fmt.Sprintf("%s|%s|%s|%v|%v", e.Kind, e.Ref, t, e.Targets, e.Skip))
		}
		for _, ref := range managed {
			if tip := r.GetRef(ref); tip != "" && ref != rsl.Ref {
				st.trees[ref] = r.TreeOf(tip)
			} else {
				st.trees[ref] = tip
			}
		}
		return st
	}
	sameState := func(a, b state) (bool, string) {
		if strings.Join(a.entries, "\n") != strings.Join(b.entries, "\n") {
			return false, fmt.Sprintf("the log holds %d entries %v, the uninterrupted run's holds %d %v", len(a.entries), lastN(a.entries, 2), len(b.entries), lastN(b.entries, 2))
		}
		for _, ref := range managed {
			if ref == rsl.Ref {
				continue
			}
			if a.trees[ref] != b.trees[ref] {
				return false, fmt.Sprintf("%s holds tree %s, in the uninterrupted run %s", ref, short10(a.trees[ref]), short10(b.trees[ref]))
			}
		}
		return true, ""
	}
	clone := func(name string) *gitx.Repo {
		dst := filepath.Join(sc.Dir, name)
		_ = os.RemoveAll(dst)
		if err := copyDir(base.Dir, dst); err != nil {
			panic(gitx.HarnessError{Err: err})
		}
		return &gitx.Repo{Dir: dst}
	}
	// uninterrupted run, recording the operation's subprocess trace
	trace := [][]string{}
	ref := clone("reference")
	gitinterface.VerifExecHook = func(gitDir string, args []string) error {
		trace = append(trace, append([]string{}, args...))
		return nil
	}
	refErr := run(open(ref))
	gitinterface.VerifExecHook = nil
	if refErr != nil {
		res.StateKey = "git-uninterrupted-run-fails"
		res.Stat("git_uninterrupted_run_failed", 1)
		res.Sample = map[string]any{"engine": "git", "op": opKind, "error": refErr.Error()}
		return res
	}
	sF := observe(ref)
	s0 := observe(base)
	refs0 := base.Refs()
	outcomes := []string{}
	faulted := 0
	// at most maxK fault positions per case, spread over the trace; the offset (from the case number)
	// moves them so that successive cases cover every position
	stride, maxK := c.Config["stride"], 6
	if c.Config["stride"] == 2 {
		maxK = 12
	}
	if (len(trace)+stride-1)/stride > maxK {
		stride = (len(trace) + maxK - 1) / maxK
	}
	for k := c.Config["offset"] % stride; k < len(trace); k += stride {
		for _, ftype := range []string{"io-error", "crash-after"} {
			wr := clone("work")
			gi := open(wr)
			n := 0
			fired := false
			gitinterface.VerifExecHook, gitinterface.VerifExecDoneHook = nil, nil
			if ftype == "io-error" {
				gitinterface.VerifExecHook = func(gitDir string, args []string) error {
					n++
					if n-1 == k && !fired {
						fired = true
						if os.Getenv("VERIF_DEBUG") != "" {
							fmt.Fprintf(os.Stderr, "DEBUG fault at call %d: %v\n", k, args)
						}
						return fmt.Errorf("injected: git %s failed", args[0])
					}
					return nil
				}
			} else {
				gitinterface.VerifExecDoneHook = func(gitDir string, args []string, err error) error {
					n++
					if n-1 == k && !fired {
						fired = true
						panic(c16gitCrash{})
					}
					return err
				}
			}
			var opErr error
			crashed := false
			func() {
				defer func() {
					if r := recover(); r != nil {
						if _, ok := r.(c16gitCrash); ok {
							crashed = true
							return
						}
						panic(r)
					}
				}()
				opErr = run(gi)
			}()
			gitinterface.VerifExecHook, gitinterface.VerifExecDoneHook = nil, nil
			if !fired {
				continue
			}
			faulted++
			res.Stat("fault:"+ftype, 1)
			call := trace[k][0]
			feat := []string{"engine=git", "op=" + opKind, "fault=" + ftype}
			if !established {
				feat = append(feat, "nothing-recorded-before")
			}
			viol := func(class, detail string, extra ...string) {
				res.Violate("C16", class, fmt.Sprintf("%s on a real repository (%s), %s at git subprocess #%d (%s): %s", opKind, map[bool]string{true: "established", false: "nothing recorded before"}[established], ftype, k, call, detail), 0, append(append([]string{}, feat...), extra...)...)
			}
			s1 := observe(wr)
			if s1.problem != "" {
				viol("chain-broken", s1.problem)
				continue
			}
			if ftype == "crash-after" {
				// after a crash: the log is a valid chain that extends the old one; each managed ref is as
				// before, or as after the uninterrupted run, or matches its latest entry
				if !crashed {
					continue
				}
				if len(s1.entries) < len(s0.entries) || strings.Join(s1.entries[:len(s0.entries)], "\n") != strings.Join(s0.entries, "\n") {
					viol("chain-broken", "entries that were on the log before the crash are gone")
				}
				outcomes = append(outcomes, fmt.Sprintf("%d:crash", k))
				continue
			}
			if opErr == nil {
				if ok, why := sameState(s1, sF); !ok {
					viol("error-swallowed", "the operation reported success but "+why)
				}
				outcomes = append(outcomes, fmt.Sprintf("%d:ok", k))
				continue
			}
			// reported failure: no partial entry, refs unchanged or matching their latest entry
			raw, _ := world.WalkRSLGit(wr, rsl.Ref)
			bad := ""
			for _, mref := range managed[1:] {
				tip := wr.GetRef(mref)
				if tip == refs0[mref] {
					continue
				}
				latest := ""
				for _, e := range raw {
					if (e.Kind == "reference" || e.Kind == "propagation") && e.Ref == mref {
						latest = e.Target
					}
				}
				if tip != "" && tip == latest {
					continue
				}
				bad = fmt.Sprintf("%s moved from %s to %s but its latest log entry records %s", mref, short10(refs0[mref]), short10(tip), short10(latest))
				if refs0[mref] == "" {
					feat = append(feat, "ref-did-not-exist-before")
				}
				break
			}
			if bad != "" {
				viol("ref-inconsistent", bad)
				continue
			}
			// retry once the fault has cleared, in a fresh process
			rerr := run(open(wr))
			if rerr != nil {
				viol("retry-fails", fmt.Sprintf("first attempt failed with %q; the retry without faults failed with %q", errStr(opErr), errStr(rerr)))
				continue
			}
			s2 := observe(wr)
			if s2.problem != "" {
				viol("chain-broken", "after the retry: "+s2.problem)
				continue
			}
			if ok, why := sameState(s2, sF); !ok {
				viol("retry-differs", "after the retry "+why)
				continue
			}
			outcomes = append(outcomes, fmt.Sprintf("%d:err-retry-ok", k))
		}
		if len(res.Violations) > 0 {
			break
		}
	}
	res.Steps = faulted
	res.Digest = core.HashStrings(opKind, fmt.Sprint(established, len(trace)), strings.Join(outcomes, ","))
	res.StateKey = "git/" + res.Digest
	res.Nontrivial = faulted >= 2
	res.Stat("git_cases", 1)
	res.Stat("faulted_executions", faulted)
	res.Stat("probe:git_faulted_execution", boolInt(faulted > 0))
	res.Sample = map[string]any{"engine": "git", "op": opKind, "established": established, "git_subprocesses_of_the_operation": callsAShort(trace), "outcomes(k:result)": outcomes}
	return res
}

func lastN(xs []string, n int) []string {
	if len(xs) <= n {
		return xs
	}
	return xs[len(xs)-n:]
}
