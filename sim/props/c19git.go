package props

import (
	"context"
	"fmt"
	"os"
	"path/filepath"
	"strings"

	"github.com/gittuf/gittuf/internal/attestations"
	"github.com/gittuf/gittuf/internal/policy"
	"github.com/gittuf/gittuf/internal/signerverifier/dsse"
	"github.com/gittuf/gittuf/pkg/gitinterface"
	"github.com/gittuf/gittuf/pkg/rsl"
	"github.com/gittuf/gittuf/verifsim/core"
	"github.com/gittuf/gittuf/verifsim/gitx"
	"github.com/gittuf/gittuf/verifsim/simstore"
	"github.com/gittuf/gittuf/verifsim/world"
)

// The real-git slice of C19: the prediction computes the merge tree with
// `git merge-tree` through pkg/gitinterface (GetMergeTree), which SimStore
// replaces by a stub. Here the branch rule needs 2 of developers 1-3, the
// feature is ahead of or diverged from the branch, approvals are stored for
// the merge tree the HARNESS computed with plumbing, and after the prediction
// the merge is recorded by each candidate on a copy of the repository.

func c19IsGitCase(idx uint64) bool { return idx%16 < 2 && (idx/16)%25 == 0 }
func c19GitSeq(idx uint64) uint64  { return (idx/400)*2 + idx%16 }

func (c19) generateGit(r *core.Rand, tier string, idx uint64) *core.Case {
	seq := c19GitSeq(idx)
	c := &core.Case{Property: "C19", Engine: "git", Config: map[string]int{}, Flags: map[string]bool{}}
	// most telling combinations first: a real merge whose approvals decide the answer
	combos := [][2]int{{1, 1}, {1, 2}, {0, 1}, {1, 0}, {0, 2}, {0, 0}}
	cb := combos[seq%uint64(len(combos))]
	c.Flags["diverged"] = cb[0] == 1
	c.Config["approvals"] = cb[1] // how many of developers 1-3 approved the predicted merge (0, 1, 2)
	c.Config["featureCommits"] = r.Range(1, 2)
	c.Flags["conflictingFile"] = false
	return c
}

func (d c19) executeGit(c *core.Case) (res *core.Result) {
	res = &core.Result{}
	defer func() {
		if r := recover(); r != nil {
			if he, ok := r.(gitx.HarnessError); ok {
				res = &core.Result{HarnessErr: he.Error()}
				return
			}
			panic(r)
		}
	}()
	sc, err := gitx.NewScratch()
	if err != nil {
		res.HarnessErr = err.Error()
		return res
	}
	defer sc.Close()
	gitx.SetupProcessEnv(sc.Dir)
	base, err := sc.Init("base", false)
	if err != nil {
		res.HarnessErr = err.Error()
		return res
	}
	open := func(r *gitx.Repo) *gitinterface.Repository {
		gi, err := gitinterface.LoadRepository(r.Dir)
		if err != nil {
			panic(gitx.HarnessError{Err: err})
		}
		gi.VerifSetClock(gitx.FixedTime)
		return gi
	}
	must := func(what string, err error) {
		if err != nil {
			panic(gitx.HarnessError{Err: fmt.Errorf("%s: %w", what, err)})
		}
	}
	gi := open(base)
	pol := simplePolicy([]int{1, 2, 3}, 2)
	must("stage", world.CommitPolicy(gi, pol, false))
	must("apply", world.ApplyPolicy(gi, false))
	empty := base.MustGit(nil, "hash-object", "-t", "tree", "-w", "--stdin")
	when := simstore.Epoch + 100
	commit := func(repo *gitx.Repo, parents []string, files map[string]string, key int, msg string) string {
		when++
		cur := map[string]string{}
		if len(parents) > 0 {
			for k, v := range repo.ListTree(parents[0]) {
				cur[k] = v
			}
		}
		for k, v := range files {
			cur[k] = repo.WriteBlob([]byte(v))
		}
		return signedCommit(repo, repo.WriteTree(cur), parents, msg+"\n", key, when)
	}
	record := func(repo *gitx.Repo, ref, target string, key int) {
		raw, _ := world.WalkRSLGit(repo, rsl.Ref)
		when++
		parents := []string{}
		if tip := repo.GetRef(rsl.Ref); tip != "" {
			parents = append(parents, tip)
		}
		id := signedCommit(repo, empty, parents, fmt.Sprintf("RSL Reference Entry\n\nref: %s\ntargetID: %s\nnumber: %d", ref, target, len(raw)+1), key, when)
		repo.SetRef(rsl.Ref, id)
		repo.SetRef(ref, target)
	}
	// the first change on main needs two principals too: developer 1 pushes, developer 2 approved
	approve := func(ref, from, toTree string, key int) {
		atts, err := attestations.LoadCurrentAttestations(gi)
		must("load attestations", err)
		stmt, err := attestations.NewReferenceAuthorizationForCommit(ref, from, toTree)
		must("statement", err)
		env, err := dsse.CreateEnvelope(stmt)
		must("envelope", err)
		if existing, err := atts.GetReferenceAuthorizationFor(gi, ref, from, toTree); err == nil {
			env = existing
		}
		env, err = dsse.SignEnvelope(context.Background(), env, world.GetKey(key).DSSE())
		must("sign", err)
		must("set authorization", atts.SetReferenceAuthorization(gi, env, ref, from, toTree))
		must("commit attestations", atts.Commit(gi, "approval", true, false))
	}
	zero := strings.Repeat("0", 40)
	a := commit(base, nil, map[string]string{"base.txt": "base"}, 1, "base")
	approve(mainRef, zero, base.TreeOf(a), 2)
	record(base, mainRef, a, 1)
	// feature: developers' work recorded on its own (unprotected) branch
	tip := a
	for i := 0; i < c.Config["featureCommits"]; i++ {
		tip = commit(base, []string{tip}, map[string]string{fmt.Sprintf("feat%d.txt", i): fmt.Sprintf("feature-%d", i)}, 2, fmt.Sprintf("feature %d", i))
	}
	record(base, featRef, tip, 2)
	mainTip := a
	if c.Flags["diverged"] {
		b := commit(base, []string{a}, map[string]string{"main2.txt": "more"}, 1, "more on main")
		approve(mainRef, a, base.TreeOf(b), 3)
		record(base, mainRef, b, 1)
		mainTip = b
	}
	// what the merge is, by plumbing
	mergeTree := base.TreeOf(tip)
	if c.Flags["diverged"] {
		out, err := base.Git(nil, "merge-tree", "--write-tree", mainTip, tip)
		if err != nil {
			res.StateKey = "git-merge-conflict"
			return res
		}
		mergeTree = strings.Fields(out)[0]
	}
	approvers := []int{3, 1, 2}[:c.Config["approvals"]%3] // developer 3 first, then developer 1 (who is also a candidate recorder)
	for _, k := range approvers {
		approve(mainRef, mainTip, mergeTree, k)
	}
	need, perr := policy.NewPolicyVerifier(gi).VerifyMergeable(context.Background(), mainRef, featRef)
	pc := world.Classify(perr)
	if pc == "other" || pc == "injected" {
		res.StateKey = "git-prediction-error"
		res.Stat("prediction_not_a_policy_answer", 1)
		res.Sample = map[string]any{"engine": "git", "prediction_error": fmt.Sprint(perr)}
		return res
	}
	pred := "not-possible"
	if pc == "accept" && need {
		pred = "possible-signature-needed"
	} else if pc == "accept" {
		pred = "possible-no-signature-needed"
	}
	counted := map[int]bool{}
	for _, k := range approvers {
		counted[k] = true
	}
	type cand struct {
		name string
		key  int
	}
	cands := []cand{{"developer-1", 1}, {"developer-3", 3}, {"unknown-key", unknownKey}}
	vec := []string{}
	for ci, cd := range cands {
		dst := filepath.Join(sc.Dir, fmt.Sprintf("fork%d", ci))
		_ = os.RemoveAll(dst)
		must("fork", copyDir(base.Dir, dst))
		fork := &gitx.Repo{Dir: dst}
		target := tip
		if c.Flags["diverged"] {
			when++
			target = signedCommit(fork, mergeTree, []string{mainTip, tip}, "merge feature\n", cd.key, when+int64(ci)*10)
		}
		record(fork, mainRef, target, cd.key)
		_, verr := policy.NewPolicyVerifier(open(fork)).VerifyRefFull(context.Background(), mainRef)
		vclass := world.Classify(verr)
		vec = append(vec, vclass)
		trusted := cd.key >= 1 && cd.key <= 3
		feats := []string{"engine=git", "prediction=" + pred, "recorder=" + cd.name, "branch-rule-threshold=2"}
		if trusted {
			feats = append(feats, "recorder-is-trusted-for-branch")
		}
		switch pred {
		case "possible-no-signature-needed":
			if vclass != "accept" {
				res.Violate("C19", "prediction-mismatch", fmt.Sprintf("prediction 'possible, no further signature needed' but the merge recorded by %s does not verify (%s: %v)", cd.name, vclass, verr), 0, feats...)
			}
		case "possible-signature-needed":
			want := trusted && !counted[cd.key]
			if want && vclass != "accept" {
				res.Violate("C19", "prediction-mismatch", fmt.Sprintf("prediction 'possible, signature needed' but the merge recorded by %s (trusted, not yet counted) does not verify (%s: %v)", cd.name, vclass, verr), 0, feats...)
			}
			if !want && vclass == "accept" {
				res.Violate("C19", "prediction-mismatch", fmt.Sprintf("prediction 'possible, signature needed' but the merge recorded by %s (trusted=%v, already counted=%v) verifies", cd.name, trusted, counted[cd.key]), 0, feats...)
			}
		default:
			if vclass == "accept" {
				res.Violate("C19", "prediction-mismatch", fmt.Sprintf("prediction 'not possible' (%v) but the merge recorded by %s verifies without new approvals", perr, cd.name), 0, feats...)
			}
		}
	}
	shape := fmt.Sprintf("diverged=%v approvals=%d commits=%d -> %s %v", c.Flags["diverged"], c.Config["approvals"], c.Config["featureCommits"], pred, vec)
	res.Steps = len(cands)
	res.Digest = core.HashStrings(shape)
	res.StateKey = "git/" + res.Digest
	res.Nontrivial = pc == "accept" || len(approvers) > 0
	res.Stat("git_cases", 1)
	res.Stat("probe:git_merge_tree_of_diverged_branches", boolInt(c.Flags["diverged"]))
	res.Sample = map[string]any{"engine": "git", "case": shape}
	return res
}
