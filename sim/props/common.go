// Package props holds one driver per claimed property: a seeded generator of
// cases and a deterministic executor with the property's oracle.
package props

import (
	"fmt"
	"sort"
	"strings"

	"github.com/gittuf/gittuf/internal/attestations"
	"github.com/gittuf/gittuf/internal/policy"
	"github.com/gittuf/gittuf/pkg/rsl"
	"github.com/gittuf/gittuf/verifsim/core"
	"github.com/gittuf/gittuf/verifsim/sched"
	"github.com/gittuf/gittuf/verifsim/simstore"
	"github.com/gittuf/gittuf/verifsim/world"
)

const (
	mainRef    = "refs/heads/main"
	featRef    = "refs/heads/feature"
	openRef    = "refs/heads/scratch"
	main2Ref   = "refs/heads/main2" // unprotected; its name extends a protected one
	relRef     = "refs/heads/release"
	policyRef  = policy.PolicyRef
	stagingRef = policy.PolicyStagingRef
	attRef     = attestations.Ref
)

var managedRefs = []string{policyRef, stagingRef, attRef}

// Key roles used by generated worlds. Actor i owns key i.
// key 0: root + primary rule file; keys 1..: developers; high keys: outsiders.

// simplePolicy: root key 0 signs everything; main protected by devs with threshold.
func init() {
	// every case starts with an empty process-wide RSL cache, like a fresh gittuf process
	core.BeforeCase = func() func() {
		old := rsl.VerifSwapCache(rsl.VerifNewCache())
		return func() { rsl.VerifSwapCache(old) }
	}
}

func simplePolicy(devs []int, threshold int) *world.PolicySpec {
	ps := []world.PrincipalSpec{}
	ids := []string{}
	for _, d := range devs {
		p := world.KeyPrincipal(d)
		ps = append(ps, p)
		ids = append(ids, p.ID)
	}
	return &world.PolicySpec{
		RootVersion: 1, RootKeys: []int{0}, RootThreshold: 1, TargetsKeys: []int{0}, TargetsThreshold: 1,
		RootSigners: []int{0},
		Files: map[string]*world.RuleFileSpec{
			"targets": {Version: 1, Principals: ps, Signers: []int{0},
				Rules: []world.RuleSpec{{Name: "protect-main", Patterns: []string{"git:" + mainRef}, Principals: ids, Threshold: threshold}}},
		},
	}
}

type opBuilder struct {
	ops []world.Op
}

func (b *opBuilder) add(op world.Op) int {
	op.ID = len(b.ops) + 1
	b.ops = append(b.ops, op)
	return op.ID
}

func push(actor int, ref string, files map[string]string) world.Op {
	return world.Op{Kind: "push", Actor: actor, Ref: ref, Files: files, CommitKey: actor, EntryKey: -2}
}

func fileFor(r *core.Rand, i int) map[string]string {
	return map[string]string{fmt.Sprintf("f%d.txt", r.Intn(4)): fmt.Sprintf("content-%d-%d", i, r.Intn(1000))}
}

// refDigest summarises a store's references for state keys.
func refDigest(st *simstore.Store) string {
	parts := []string{}
	for _, kv := range st.RefsSorted() {
		parts = append(parts, kv[0]+"="+kv[1])
	}
	return core.HashStrings(parts...)
}

// chainProblem runs the independent walker and also checks that every earlier
// tip is an ancestor of the current tip.
func chainProblem(st *simstore.Store, earlierTips []string) string {
	raw, problem := world.WalkRSL(st)
	if problem != "" {
		return problem
	}
	on := map[string]bool{}
	for _, e := range raw {
		on[e.ID] = true
	}
	for _, t := range earlierTips {
		if t != "" && !on[t] {
			return fmt.Sprintf("earlier tip %s is no longer on the chain", t[:10])
		}
	}
	return ""
}

// latestEntryFor returns the target of the latest reference-updater entry for
// ref in the raw chain ("" if none).
func latestEntryFor(raw []*world.RawEntry, ref string) string {
	for i := len(raw) - 1; i >= 0; i-- {
		if (raw[i].Kind == "reference" || raw[i].Kind == "propagation") && raw[i].Ref == ref {
			return raw[i].Target
		}
	}
	return ""
}

func treeOf(st *simstore.Store, commit string) string {
	if commit == "" {
		return ""
	}
	c, err := st.CommitInfo(commit)
	if err != nil {
		return "?" + commit
	}
	return c.Tree
}

func faultStats(res *core.Result, env *sched.Env) {
	for k, v := range env.Fired {
		res.Stat("fault:"+string(k), v)
	}
}

func sortedKeys[M ~map[string]V, V any](m M) []string {
	out := make([]string, 0, len(m))
	for k := range m {
		out = append(out, k)
	}
	sort.Strings(out)
	return out
}

func rslTip(st *simstore.Store) string {
	t, _ := st.GetRef(rsl.Ref)
	return t
}

func describeOps(ops []world.Op) []string {
	out := []string{}
	for _, o := range ops {
		s := fmt.Sprintf("#%d %s a%d", o.ID, o.Kind, o.Actor)
		if o.Ref != "" {
			s += " " + strings.TrimPrefix(o.Ref, "refs/")
		}
		if len(o.Targets) > 0 {
			s += fmt.Sprintf(" targets=%v skip=%v", o.Targets, o.Skip)
		}
		if o.Mode != "" {
			s += " mode=" + o.Mode
		}
		out = append(out, s)
	}
	return out
}
