package props

import (
	"fmt"
	"sort"
	"strings"
	"time"

	"github.com/anishathalye/porcupine"
	"github.com/gittuf/gittuf/pkg/rsl"
	"github.com/gittuf/gittuf/verifsim/core"
	"github.com/gittuf/gittuf/verifsim/sched"
	"github.com/gittuf/gittuf/verifsim/world"
)

// C17 — concurrent writers cannot corrupt the log.
//
// 2-3 recording operations and 0-2 readers run as goroutines against one
// repository; every reference operation is a scheduling point and the
// scheduler (seeded, or read from the replay file) decides who runs next.
type c17 struct{}

func init() { core.Register(c17{}) }

func (c17) ID() string    { return "C17" }
func (c17) Level() string { return "exploration" }
func (c17) Rule() string {
	return "A case is a seeded history prefix plus 2-3 concurrent recording operations (record / annotate / policy stage / policy apply) and 0-2 concurrent tip readers, executed under one seeded interleaving of their reference operations (uniform-random or PCT-style priority schedules; in the thorough tier additionally every schedule with at most one pre-emption for two writers). Distinct = distinct (operation kinds, canonical schedule of reference operations); non-trivial = at least two writers were actually interleaved (some writer was pre-empted between two of its storage calls by another writer's reference write). Real-git slice (workers 0-3 of 16): two writers (record, annotate, policy stage, approval commit) with their own gitinterface handles and RSL caches on one real repository whose log is empty or holds 1-2 entries; before writer A's k-th git subprocess (k swept 0-15 by case number) the whole operation of writer B runs; same obligations through plumbing."
}
func (c17) Components() map[string]string {
	return map[string]string{
		"pkg/rsl": "real", "internal/policy (State.Commit, Apply)": "real",
		"gitstore.Storer":         "stub (SimStore; Commit = read tip / write object / compare-and-set, as gitinterface/commit.go + references.go)",
		"scheduler":               "harness: goroutines parked at every reference operation, exactly one runnable",
		"linearizability checker": "porcupine v1.3.0",
		"pkg/gitinterface (commit.go, references.go compare-and-set) and git 2.39": "real in the real-git slice",
	}
}
func (c17) Assumptions() []string {
	return []string{
		"reference operations are the only shared mutable state; object reads/writes are content-addressed and commute, so interleaving at reference-operation granularity covers interleaving at storage-call granularity",
		"concurrent OS processes are modelled by goroutines with separate in-memory RSL caches, scheduled one at a time",
	}
}

var c17Kinds = []string{"record", "annotate", "stage", "apply"}

func (d c17) Generate(r *core.Rand, tier string, idx uint64) *core.Case {
	if c17IsGitCase(idx) {
		return d.generateGit(r, tier, idx)
	}
	c := &core.Case{Property: "C17", Engine: "simstore", Config: map[string]int{}, Flags: map[string]bool{}}
	b := &opBuilder{}
	withPolicy := r.Chance(0.6)
	pol := simplePolicy([]int{1, 2, 3}, 1)
	if withPolicy {
		b.add(world.Op{Kind: "stage", Actor: 0, Policy: pol})
		b.add(world.Op{Kind: "apply", Actor: 0})
	}
	n := r.Range(0, 4)
	if !withPolicy && n == 0 && r.Chance(0.7) {
		n = 1
	}
	pushes := []int{}
	for i := 0; i < n; i++ {
		pushes = append(pushes, b.add(push(r.Range(1, 3), []string{mainRef, featRef}[r.Intn(2)], fileFor(r, i))))
	}
	c.Config["prefix"] = len(b.ops)
	nw := r.Range(2, 3)
	usedActors := map[int]bool{}
	stagedBefore := false
	for i := 0; i < nw; i++ {
		k := c17Kinds[r.Weighted([]int{5, 2, 2, 1})]
		actor := r.Range(1, 3)
		for usedActors[actor] {
			actor = (actor % 3) + 1
		}
		switch k {
		case "record":
			usedActors[actor] = true
			b.add(world.Op{Kind: "push", Actor: actor, Ref: fmt.Sprintf("refs/heads/w%d", i), Files: fileFor(r, 50+i), CommitKey: actor, EntryKey: -2})
		case "annotate":
			if len(pushes) == 0 {
				i--
				continue
			}
			usedActors[actor] = true
			b.add(world.Op{Kind: "annotate", Actor: actor, Targets: []int{pushes[r.Intn(len(pushes))]}, Skip: r.Chance(0.5), Msg: fmt.Sprintf("note-%d", i), EntryKey: -2})
		case "stage":
			if usedActors[0] {
				i--
				continue
			}
			usedActors[0] = true
			p2 := pol.Clone()
			p2.Files["targets"].Version = 2
			b.add(world.Op{Kind: "stage", Actor: 0, Policy: p2})
			stagedBefore = true
		case "apply":
			if usedActors[0] || !withPolicy || stagedBefore {
				i--
				continue
			}
			usedActors[0] = true
			// something to apply must be staged in the prefix
			p2 := pol.Clone()
			p2.Files["targets"].Version = 2
			pre := world.Op{Kind: "stage", Actor: 0, Policy: p2}
			// insert the staging into the prefix
			pre.ID = len(b.ops) + 1
			b.ops = append(b.ops, pre)
			// keep prefix contiguous: move it before the concurrent ops
			cp := c.Config["prefix"]
			ops := append([]world.Op{}, b.ops[:cp]...)
			ops = append(ops, pre)
			ops = append(ops, b.ops[cp:len(b.ops)-1]...)
			b.ops = ops
			c.Config["prefix"] = cp + 1
			b.add(world.Op{Kind: "apply", Actor: 0})
		}
	}
	nr := r.Range(0, 2)
	for i := 0; i < nr; i++ {
		b.add(world.Op{Kind: "readTip", Actor: 3, N: i})
	}
	c.Config["strategy"] = r.Intn(3) // 0 uniform, 1 PCT, 2 mostly-sequential with one pre-emption
	if tier == "thorough" && idx%4 == 0 {
		// bounded sweep: task `first` runs alone until step `at`, then another task runs to completion, then the rest
		c.Config["strategy"] = 3
		c.Config["sweepFirst"] = int(idx/4) % 3
		c.Config["sweepAt"] = int(idx/12) % 14
		c.Config["sweepOther"] = int(idx/168) % 2
	}
	c.Ops = b.ops
	return c
}

type c17op struct {
	op          *world.Op
	proc        *sched.Proc
	h           *sched.Handle
	run         func() error
	key         string // content key of the entry it appends ("" for readers)
	call        int
	ret         int
	readOut     string
	numRead     string // tip seen by the latest read of the RSL ref (the numbering read)
	staleRead   bool   // the tip had moved between that read and the commit's own read
	commitReads int    // commit attempts since the last numbering read
}

type logModelState struct {
	n    int
	last string
}

type logInput struct {
	write bool
	key   string
}

type logOutput struct {
	ok   bool
	n    int
	last string
}

func (d c17) Execute(c *core.Case) *core.Result {
	if c.Engine == "git" {
		return d.executeGit(c)
	}
	res := &core.Result{}
	np := c.Config["prefix"]
	if np > len(c.Ops) {
		np = len(c.Ops)
	}
	// after minimisation the prefix boundary is by original ids: ops with id <= boundary id
	// (ids are 1..n in generation order and the prefix is the first np ids)
	w := world.New(4)
	w.Env.RecordEvents = false
	conc := []*world.Op{}
	for i := range c.Ops {
		op := &c.Ops[i]
		if op.ID <= np {
			out := w.Exec(op)
			if out.Panic != nil {
				res.HarnessErr = fmt.Sprintf("panic in prefix: %v", out.Panic)
				return res
			}
			if out.Err != nil {
				res.StateKey = "prefix-fails"
				return res
			}
		} else {
			conc = append(conc, op)
		}
	}
	if len(conc) < 2 {
		res.StateKey = "too-few-concurrent"
		return res
	}
	tip0 := rslTip(w.St)
	raw0, _ := world.WalkRSL(w.St)

	// build concurrent tasks; user commits are made before the race (that is
	// `git commit`, not gittuf)
	tasks := []*c17op{}
	for ti, op := range conc {
		t := &c17op{op: op}
		p := w.Env.NewProc(fmt.Sprintf("t%d", ti))
		a := w.Actors[op.Actor]
		h := &sched.Handle{St: w.St, P: p, Name: a.Name, SignPEM: world.GetKey(a.Key).PEM, LocalNS: p.Name}
		t.proc, t.h = p, h
		switch op.Kind {
		case "push":
			parent, _ := w.St.GetRef(op.Ref)
			parents := []string{}
			if parent != "" {
				parents = append(parents, parent)
			}
			ct, err := w.MakeCommit(op.ID, parents, op.Files, op.CommitKey, fmt.Sprintf("commit %d", op.ID))
			if err != nil {
				res.HarnessErr = err.Error()
				return res
			}
			w.St.SetRef(op.Ref, ct.ID)
			t.key = "reference|" + op.Ref + "|" + ct.ID
			ref, id, key := op.Ref, ct.ID, op.EntryKey
			t.run = func() error { return world.RecordEntry(h, ref, id, key) }
		case "annotate":
			es := w.AllByOp[op.Targets[0]]
			if len(es) == 0 {
				res.StateKey = "skipped"
				return res
			}
			id := es[0].ID
			t.key = fmt.Sprintf("annotation|%s|%v|%s", id, op.Skip, op.Msg)
			skip, msg, key := op.Skip, op.Msg, op.EntryKey
			t.run = func() error { return world.RecordAnnotation(h, []string{id}, skip, msg, key) }
		case "stage":
			spec := op.Policy
			t.key = "reference|" + stagingRef
			t.run = func() error { return world.CommitPolicy(h, spec, true) }
		case "apply":
			t.key = "reference|" + policyRef
			t.run = func() error { return world.ApplyPolicy(h, true) }
		case "readTip":
			t.run = func() error {
				e, err := rsl.GetLatestEntry(h)
				if err != nil {
					t.readOut = "err:" + world.Classify(err)
					return nil
				}
				t.readOut = fmt.Sprintf("%d|%s", e.GetNumber(), e.GetID().String())
				return nil
			}
		default:
			res.HarnessErr = "unknown concurrent op " + op.Kind
			return res
		}
		tasks = append(tasks, t)
	}

	// observe call/return sequence numbers and which tips each writer saw
	byProc := map[string]*c17op{}
	for _, t := range tasks {
		byProc[t.proc.Name] = t
	}
	refEvents := []string{}
	w.Env.OnEvent = func(ev *sched.Event) {
		t := byProc[ev.Proc]
		if t == nil {
			return
		}
		if t.call == 0 {
			t.call = ev.Seq
		}
		t.ret = ev.Seq
		if ev.Desc.Key == rsl.Ref {
			tip := rslTip(w.St)
			switch ev.Desc.Kind {
			case "GetReference":
				t.numRead = tip // the last GetReference of the RSL before the commit is the numbering read
				t.commitReads = 0
			case "Commit.read":
				// only the first commit attempt after a numbering read is the window of
				// C17-K1: a second attempt without renumbering (a retry after a refused
				// compare-and-set) that succeeds is a different defect and is not attributed
				if t.commitReads == 0 && t.numRead != tip {
					t.staleRead = true
				}
				t.commitReads++
			}
		}
		switch ev.Desc.Kind {
		case "GetReference", "SetReference", "DeleteReference", "Commit.read", "Commit.cas", "ResetDueToError":
			refEvents = append(refEvents, fmt.Sprintf("%s:%s(%s)", ev.Proc, ev.Desc.Kind, strings.TrimPrefix(ev.Desc.Key, "refs/")))
		}
	}
	defer func() { w.Env.OnEvent = nil }()

	// the scheduler's choice function
	rng := core.NewRand(c.Seed ^ 0xC17)
	prio := make([]int, len(tasks))
	for i := range prio {
		prio[i] = rng.Intn(1000)
	}
	changeAt := map[int]bool{}
	for i := 0; i < 3; i++ {
		changeAt[rng.Intn(40)] = true
	}
	preemptAt := rng.Intn(25)
	strategy := c.Config["strategy"]
	choose := func(runnable []*sched.Task, step int) int {
		if step < len(c.Schedule) {
			for i, t := range runnable {
				if t.ID == c.Schedule[step] {
					return i
				}
			}
			return 0
		}
		if len(c.Schedule) > 0 {
			return 0 // past an explicit schedule: lowest id first
		}
		switch strategy {
		case 1: // PCT-style: highest priority runs; at change points the running task drops to the lowest priority
			if changeAt[step] {
				best := 0
				for i, t := range runnable {
					if prio[t.ID] > prio[runnable[best].ID] {
						best = i
					}
				}
				prio[runnable[best].ID] = -step
			}
			best := 0
			for i, t := range runnable {
				if prio[t.ID] > prio[runnable[best].ID] {
					best = i
				}
			}
			return best
		case 3: // systematic single pre-emption
			first := c.Config["sweepFirst"] % len(tasks)
			pick := func(id int) int {
				for i, t := range runnable {
					if t.ID == id {
						return i
					}
				}
				return -1
			}
			if step < c.Config["sweepAt"] {
				if i := pick(first); i >= 0 {
					return i
				}
				return 0
			}
			// the pre-empting task: the next id after first (or the one after that)
			other := (first + 1 + c.Config["sweepOther"]) % len(tasks)
			if other == first {
				other = (first + 1) % len(tasks)
			}
			if i := pick(other); i >= 0 {
				return i
			}
			if i := pick(first); i >= 0 {
				return i
			}
			return 0
		case 2: // run task 0 to completion except for one pre-emption window
			if step == preemptAt && len(runnable) > 1 {
				return 1 + rng.Intn(len(runnable)-1)
			}
			return 0
		default:
			return rng.Intn(len(runnable))
		}
	}
	procs := []*sched.Proc{}
	opIdx := []int{}
	fns := []func() error{}
	for _, t := range tasks {
		procs = append(procs, t.proc)
		opIdx = append(opIdx, t.op.ID)
		fns = append(fns, t.run)
	}
	sts, picks, err := w.Env.RunConcurrent(procs, opIdx, fns, choose, 400)
	if err != nil {
		res.HarnessErr = "scheduler: " + err.Error()
		return res
	}
	res.Steps = len(picks)
	res.Digest = core.HashStrings(refEvents...)

	feat := []string{}
	stale := false
	for _, t := range tasks {
		if t.key != "" && t.staleRead {
			stale = true
		}
	}
	if stale {
		feat = append(feat, "tip-moved-between-numbering-read-and-commit")
	}
	kinds := []string{}
	for _, t := range tasks {
		kinds = append(kinds, t.op.Kind)
	}
	viol := func(class, detail string, extra ...string) {
		f := append(append([]string{}, feat...), extra...)
		res.Violate("C17", class, detail+fmt.Sprintf(" [ops %v, schedule %v]", kinds, picks), 0, f...)
		res.Violations[len(res.Violations)-1].Schedule = picks
	}
	for i, st := range sts {
		if st.Out.Panic != nil {
			viol("panic", fmt.Sprintf("operation %s panicked: %v", tasks[i].op.Kind, st.Out.Panic))
		}
	}

	// (ii) the final log through the independent walker
	raw, problem := world.WalkRSL(w.St)
	if problem == "" {
		problem = chainProblem(w.St, []string{tip0})
	}
	if problem != "" {
		onlyNumber := strings.Contains(problem, "has number")
		if onlyNumber {
			viol("chain-broken", "after concurrent recording: "+problem, "number-discontinuity")
		} else {
			viol("chain-broken", "after concurrent recording: "+problem)
		}
	}
	// duplicate numbers
	seenNum := map[uint64]string{}
	for _, e := range raw {
		if e.Number == 0 {
			continue
		}
		if other, dup := seenNum[e.Number]; dup && problem == "" {
			viol("duplicate-number", fmt.Sprintf("entries %s and %s both carry number %d", short10(other), short10(e.ID), e.Number))
		}
		seenNum[e.Number] = e.ID
	}
	// (i) per operation: error and no trace, or success and exactly one entry
	fresh := raw
	if len(raw0) <= len(raw) {
		fresh = raw[len(raw0):]
	}
	count := func(t *c17op) int {
		n := 0
		for _, e := range fresh {
			if count1(t, e) {
				n++
			}
		}
		return n
	}
	for i, t := range tasks {
		if t.key == "" {
			continue
		}
		n := count(t)
		e := sts[i].Out.Err
		switch {
		case e == nil && n == 0:
			viol("lost-entry", fmt.Sprintf("%s by %s reported success but its entry is not in the log", t.op.Kind, t.proc.Name))
		case e == nil && n > 1 && t.op.Kind != "apply" && t.op.Kind != "stage":
			viol("duplicate-entry", fmt.Sprintf("%s by %s appears %d times", t.op.Kind, t.proc.Name, n))
		case e != nil && n > 0 && t.op.Kind != "apply" && t.op.Kind != "stage":
			viol("partial-entry", fmt.Sprintf("%s by %s failed (%v) but left %d entries", t.op.Kind, t.proc.Name, e, n))
		}
	}
	// every reader can walk it end to end (fresh process, cold cache)
	if problem == "" {
		obs := w.Env.NewProc("walker")
		oh := &sched.Handle{St: w.St, P: obs, Name: "walker", LocalNS: "walker"}
		o := obs.RunOp(0, func() error {
			if _, _, err := rsl.GetFirstEntry(oh); err != nil && len(raw) > 0 {
				return err
			}
			return nil
		})
		if o.Err != nil || o.Panic != nil {
			viol("reader-cannot-walk", fmt.Sprintf("rsl.GetFirstEntry on the final log: %v %v", o.Err, o.Panic))
		}
	}
	// (iii) linearizability of appends and tip reads against a sequential log
	if problem == "" && len(res.Violations) == 0 {
		pos := map[string]int{}
		for i, e := range raw {
			pos[e.ID] = i + 1
		}
		ops := []porcupine.Operation{}
		for i, t := range tasks {
			if t.call == 0 {
				continue
			}
			if t.key != "" && t.op.Kind != "stage" && t.op.Kind != "apply" {
				ok := sts[i].Out.Err == nil
				ops = append(ops, porcupine.Operation{ClientId: i, Input: logInput{write: true, key: t.key}, Call: int64(t.call), Output: logOutput{ok: ok}, Return: int64(t.ret) + 1})
			} else if t.key == "" && !strings.HasPrefix(t.readOut, "err:") && t.readOut != "" {
				var n int
				var id string
				fmt.Sscanf(t.readOut, "%d|%s", &n, &id)
				ops = append(ops, porcupine.Operation{ClientId: i, Input: logInput{}, Call: int64(t.call), Output: logOutput{ok: true, n: pos[id], last: id}, Return: int64(t.ret) + 1})
			}
		}
		// only check when all appends are plain records/annotations (policy ops append several entries)
		plain := true
		for _, t := range tasks {
			if t.op.Kind == "stage" || t.op.Kind == "apply" {
				plain = false
			}
		}
		if plain && len(ops) > 0 {
			keyOfID := map[string]string{}
			for _, t := range tasks {
				if t.key == "" {
					continue
				}
				for _, e := range fresh {
					if count1(t, e) {
						keyOfID[e.ID] = t.key
					}
				}
			}
			last0 := ""
			if len(raw0) > 0 {
				last0 = raw0[len(raw0)-1].ID
			}
			model := porcupine.Model{
				Init: func() interface{} { return logModelState{n: len(raw0), last: last0} },
				Step: func(state, input, output interface{}) (bool, interface{}) {
					s := state.(logModelState)
					in := input.(logInput)
					out := output.(logOutput)
					if in.write {
						if !out.ok {
							return true, s
						}
						return true, logModelState{n: s.n + 1, last: in.key}
					}
					want := s.last
					got := out.last
					if k, ok := keyOfID[got]; ok {
						got = k
					}
					return out.n == s.n && got == want, s
				},
				Equal: func(a, b interface{}) bool { return a.(logModelState) == b.(logModelState) },
			}
			r := porcupine.CheckOperationsTimeout(model, ops, 10*time.Second)
			switch r {
			case porcupine.Illegal:
				viol("not-linearizable", "the recorded history of appends and tip reads has no sequential explanation")
			case porcupine.Unknown:
				res.Stat("linearizability_inconclusive", 1)
			default:
				res.Stat("linearizability_checked", 1)
			}
		}
	}

	// non-trivial: a writer was pre-empted by another writer's reference write
	interleaved := false
	{
		lastProc := ""
		switches := 0
		for _, ev := range refEvents {
			p := ev[:strings.Index(ev, ":")]
			if p != lastProc {
				switches++
				lastProc = p
			}
		}
		writers := 0
		for _, t := range tasks {
			if t.key != "" {
				writers++
			}
		}
		interleaved = switches > len(tasks) && writers >= 2
	}
	res.Nontrivial = interleaved
	sort.Strings(kinds)
	res.StateKey = core.HashStrings(strings.Join(kinds, ","), strings.Join(refEvents, ";"))
	res.Stat("probe:cas_failure_observed", boolInt(anyErrContains(sts, "compare-and-set")))
	res.Stat("probe:stale_numbering_read", boolInt(stale))
	res.Sample = map[string]any{"prefix": describeOps(c.Ops[:min(np, len(c.Ops))]), "concurrent": kinds, "schedule": picks, "reference_events": refEvents}
	return res
}

func count1(t *c17op, e *world.RawEntry) bool {
	parts := strings.Split(t.key, "|")
	switch {
	case parts[0] == "reference" && e.Kind == "reference":
		return e.Ref == parts[1] && (len(parts) < 3 || e.Target == parts[2])
	case parts[0] == "annotation" && e.Kind == "annotation":
		return len(e.Targets) == 1 && e.Targets[0] == parts[1] && fmt.Sprint(e.Skip) == parts[2] && e.Msg == parts[3]
	}
	return false
}

func anyErrContains(ts []*sched.Task, s string) bool {
	for _, t := range ts {
		if t.Out.Err != nil && strings.Contains(t.Out.Err.Error(), s) {
			return true
		}
	}
	return false
}
