package props

import (
	"fmt"
	"sort"
	"strings"

	"github.com/gittuf/gittuf/pkg/rsl"
	"github.com/gittuf/gittuf/verifsim/core"
	"github.com/gittuf/gittuf/verifsim/gitx"
	"github.com/gittuf/gittuf/verifsim/world"
)

// The controller scenario of C18: the directive is not written by anybody, it
// is synthesised by gittuf for each controller the root names (upstream ref =
// the controller's policy ref, upstream path "metadata", downstream path
// gittuf-controller/<name>-<base64 of the location> in the policy ref).

func c18IsControllerCase(idx uint64) bool { return idx%8 == 5 }

func (c18) generateController(r *core.Rand, tier string, idx uint64) *core.Case {
	c := &core.Case{Property: "C18", Engine: "git", Config: map[string]int{}, Flags: map[string]bool{"controller": true}, Strs: map[string]string{}}
	// steps: p = propagate, u = the controller publishes a new policy state, l = the network repository edits its own policy
	steps := []string{"p"}
	for i, n := 0, r.Range(1, 3); i < n; i++ {
		steps = append(steps, []string{"p", "u", "l", "p"}[r.Intn(4)])
	}
	steps = append(steps, "p", "p")
	c.Strs["steps"] = strings.Join(steps, "")
	return c
}

func (d c18) executeController(c *core.Case) (res *core.Result) {
	res = &core.Result{}
	defer func() {
		if r := recover(); r != nil {
			if he, ok := r.(gitx.HarnessError); ok {
				res = &core.Result{HarnessErr: he.Error()}
				return
			}
			panic(r)
		}
	}()
	e, err := newNetEnv(nil, nil)
	if err != nil {
		res.StateKey = "net-setup-failed"
		res.Stat("net_setup_failed", 1)
		return res
	}
	defer e.Close()
	const polRef = "refs/gittuf/policy"
	viol := func(class, detail string) {
		res.Violate("C18", class, detail, 0, "controller-directive")
	}
	outcomes := []string{}
	ctlVersion, netVersion := 1, 1
	props := 0
	for i := 0; i < len(c.Strs["steps"]) && len(res.Violations) == 0; i++ {
		switch c.Strs["steps"][i] {
		case 'u':
			ctlVersion++
			e.ctlSpec.Files["targets"].Version = ctlVersion
			if err := world.CommitPolicy(e.ctlGI, e.ctlSpec, false); err != nil {
				panic(gitx.HarnessError{Err: fmt.Errorf("controller stage: %w", err)})
			}
			if err := world.ApplyPolicy(e.ctlGI, false); err != nil {
				panic(gitx.HarnessError{Err: fmt.Errorf("controller apply: %w", err)})
			}
			outcomes = append(outcomes, "ctl-update")
		case 'l':
			netVersion++
			e.netSpec.Files["targets"].Version = netVersion
			if err := world.CommitPolicy(e.netGI, e.netSpec, false); err != nil {
				outcomes = append(outcomes, "net-stage-err")
				res.Stat("net_own_policy_edit_failed", 1)
				continue
			}
			if err := world.ApplyPolicy(e.netGI, false); err != nil {
				outcomes = append(outcomes, "net-apply-err")
				res.Stat("net_own_policy_edit_failed", 1)
				continue
			}
			outcomes = append(outcomes, "net-update")
		case 'p':
			props++
			tipBefore := e.net.GetRef(polRef)
			before := e.net.ListTree(tipBefore)
			rawBefore, _ := world.WalkRSLGit(e.net, rsl.Ref)
			// the controller's latest unskipped recorded policy state
			ctlRaw, _ := world.WalkRSLGit(e.ctl, rsl.Ref)
			var src *world.RawEntry
			for j := len(ctlRaw) - 1; j >= 0; j-- {
				if ctlRaw[j].Kind == "reference" && ctlRaw[j].Ref == polRef {
					src = ctlRaw[j]
					break
				}
			}
			if src == nil {
				panic(gitx.HarnessError{Err: fmt.Errorf("controller has no policy entry")})
			}
			perr := e.propagate()
			tipAfter := e.net.GetRef(polRef)
			after := e.net.ListTree(tipAfter)
			rawAfter, chainProblem := world.WalkRSLGit(e.net, rsl.Ref)
			if perr != nil {
				outcomes = append(outcomes, "prop:err")
				if tipAfter != tipBefore || len(rawAfter) != len(rawBefore) {
					viol("failed-propagation-changed-state", fmt.Sprintf("propagation from the controller failed (%v) but the policy ref or log changed", perr))
				} else {
					viol("propagation-failed", fmt.Sprintf("propagation from the controller failed on well-formed repositories: %v", perr))
				}
				continue
			}
			if chainProblem != "" {
				viol("chain-broken", "network log after propagation: "+chainProblem)
				continue
			}
			expected := map[string]string{}
			for k, v := range before {
				if !strings.HasPrefix(k, e.downPath+"/") {
					expected[k] = v
				}
			}
			sub := map[string]string{}
			for k, v := range e.ctl.ListTree(src.Target) {
				if strings.HasPrefix(k, "metadata/") {
					sub[strings.TrimPrefix(k, "metadata/")] = v
					expected[e.downPath+"/"+strings.TrimPrefix(k, "metadata/")] = v
				}
			}
			same := true
			for k, v := range sub {
				if before[e.downPath+"/"+k] != v {
					same = false
				}
			}
			for k := range before {
				if strings.HasPrefix(k, e.downPath+"/") {
					if _, ok := sub[strings.TrimPrefix(k, e.downPath+"/")]; !ok {
						same = false
					}
				}
			}
			diff := []string{}
			bystander := false
			for k, v := range expected {
				if after[k] != v {
					diff = append(diff, fmt.Sprintf("%q expected %s got %s", k, short10(v), short10(after[k])))
					if !strings.HasPrefix(k, e.downPath+"/") {
						bystander = true
					}
				}
			}
			for k, v := range after {
				if _, ok := expected[k]; !ok {
					diff = append(diff, fmt.Sprintf("%q unexpected (%s)", k, short10(v)))
					if !strings.HasPrefix(k, e.downPath+"/") {
						bystander = true
					}
				}
			}
			sort.Strings(diff)
			if len(diff) > 0 {
				class := "subtree-mismatch"
				if bystander {
					class = "bystander-path-changed"
				}
				viol(class, fmt.Sprintf("after propagation the network repository's policy tree differs from (old tree with %s replaced by the controller's latest recorded metadata): %s", e.downPath, strings.Join(headN(diff, 4), "; ")))
				continue
			}
			newEntries := rawAfter[len(rawBefore):]
			if same {
				if tipAfter != tipBefore || len(newEntries) != 0 {
					viol("not-idempotent", fmt.Sprintf("the controller's metadata was already in place, yet propagation created %d log entr(ies) and moved the policy ref: %v", len(newEntries), tipAfter != tipBefore))
					continue
				}
				outcomes = append(outcomes, "prop:noop")
				continue
			}
			okEntry := false
			for _, ne := range newEntries {
				if ne.Kind == "propagation" && ne.Ref == polRef && ne.Upstream == e.ctl.Dir && ne.UpEntry == src.ID && ne.Target == tipAfter {
					okEntry = true
				}
			}
			if !okEntry {
				viol("propagation-entry-wrong", fmt.Sprintf("propagation changed the policy ref but the entries appended (%s) do not name the controller %s, its entry %s and the new tip", describeRaw(newEntries), e.ctl.Dir, short10(src.ID)))
				continue
			}
			outcomes = append(outcomes, fmt.Sprintf("prop:changed%d", len(newEntries)))
		}
	}
	res.Steps = len(c.Strs["steps"])
	res.Digest = core.HashStrings("controller", strings.Join(outcomes, ","))
	res.StateKey = "controller/" + res.Digest
	res.Nontrivial = props >= 2 && strings.Contains(strings.Join(outcomes, ","), "prop:changed")
	res.Stat("probe:controller_directive_propagated", boolInt(strings.Contains(strings.Join(outcomes, ","), "prop:changed")))
	res.Stat("probe:noop_propagation_observed", boolInt(strings.Contains(strings.Join(outcomes, ","), "noop")))
	res.Stat("git_propagate_calls", props)
	res.Sample = map[string]any{"scenario": "controller directive synthesised by gittuf", "steps": c.Strs["steps"], "outcomes": outcomes, "downstream_path": e.downPath}
	return res
}
