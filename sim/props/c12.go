package props

import (
	"fmt"
	"strings"

	"github.com/gittuf/gittuf/verifsim/core"
	"github.com/gittuf/gittuf/verifsim/model"
	"github.com/gittuf/gittuf/verifsim/simstore"
	"github.com/gittuf/gittuf/verifsim/world"
)

// C12 — the policy ref advances only to verified descendants that
// verification accepts.
type c12 struct{}

func init() {
	core.Register(c12{})
	core.TierTable["C12"] = map[string]core.TierCfg{"quick": {Runs: 20000, BudgetS: 75}, "thorough": {Runs: 800000, BudgetS: 1200}}
}

func (c12) ID() string    { return "C12" }
func (c12) Level() string { return "exploration" }
func (c12) Rule() string {
	return "A case is a seeded sequence of policy operations by signers inside and outside the roles — stage (valid successors with root rotation over several staged steps, thresholds, rule and version edits; and successors a non-root or non-rule-file key produced: root not signed by the predecessor's quorum, self-declared new root, rule file signed by an untrusted key, lowered versions, unreachable rule file), apply, discard, authorised pushes — interleaved with crash leftovers and tampering written straight into the store: policy or staging ref moved without a log entry, a log entry without the ref, staging reset to a commit that does not descend from policy, or back to an older applied policy commit. Oracle: a state machine over (policy ref, staging ref, their latest log entries): a successful Apply moved the policy ref to the staged tip, which descends from the old policy tip, and appended its policy entry; Apply refuses on any ref/entry disagreement, on non-descendant staging and on invalid staged metadata; a failed Apply changes neither ref; Discard makes staging equal to policy; and every state a successful Apply published is accepted by a fresh LoadCurrentState and by full verification of an authorised branch history. API slice (workers 0-3 of 16, every 100th of their cases; real git): on a repository whose applied and recorded staging states have root keys {0,4}, with staged-but-unrecorded edits on top (a directive and a hook; in a third of the cases the removal of root key 4, in another third a key added as root and removed again), 10-14 of the 29 root-of-trust mutators of experimental/gittuf are each called with valid arguments by a signer who is not a root principal of the staged state (branch-rule developer, rule-file key, app key, role-less principal, unknown key, the removed root key, the added-and-removed key): each call must return an error and leave every reference unchanged; one of the same calls is then repeated by a root principal (non-vacuity probe, not an obligation). Distinct = distinct (operation/outcome sequence, tamper kinds, ref relation before each apply | signer kind, scenario, outcome vector); non-trivial = at least two applies were attempted and at least one succeeded after a non-initial stage, or an API case ran."
}
func (c12) Components() map[string]string {
	return map[string]string{"internal/policy (Apply, Discard, ReconcileStaging, State.Commit, LoadState)": "real", "experimental/gittuf root mutators (loadRootMetadata)": "real, on real git 2.39 / tmpfs in the API-slice cases", "pkg/gitinterface": "real in the API-slice cases", "gitstore.Storer": "stub (SimStore)"}
}
func (c12) Assumptions() []string {
	return []string{"SimStore cases represent non-root signers by what they can produce (metadata not signed by the required quorum, staged through State.Commit); the API refusal itself is exercised by the git-engine cases", "SignRoot is not among the calls that must be refused: it adds a signature without changing what the root metadata says, and a non-root signature is ignored by verification"}
}

func (d c12) Generate(r *core.Rand, tier string, idx uint64) *core.Case {
	if c12IsAPICase(idx) {
		return d.generateAPI(r, tier, idx)
	}
	c := &core.Case{Property: "C12", Engine: "simstore", Config: map[string]int{}, Flags: map[string]bool{}}
	b := &opBuilder{}
	pol := simplePolicy([]int{1, 2}, 1)
	pol.Files["targets"].Principals = append(pol.Files["targets"].Principals, world.KeyPrincipal(advKey))
	if r.Chance(0.3) {
		pol.RootKeys, pol.RootThreshold, pol.RootSigners = []int{0, 4}, r.Range(1, 2), []int{0, 4}
	}
	cur := pol
	b.add(world.Op{Kind: "stage", Actor: 0, Policy: pol})
	if r.Chance(0.9) {
		b.add(world.Op{Kind: "apply", Actor: 0})
	}
	n := r.Range(2, 10)
	for i := 0; i < n; i++ {
		switch r.Weighted([]int{6, 6, 2, 3, 3, 1}) {
		case 0: // stage a successor
			nx := cur.Clone()
			valid := r.Chance(0.6)
			if valid {
				switch r.Intn(4) {
				case 0:
					if len(nx.RootKeys) == 1 {
						nx.RootKeys = append(nx.RootKeys, 4)
					} else {
						nx.RootKeys, nx.RootThreshold = nx.RootKeys[:1], 1
					}
					nx.RootVersion++
				case 1:
					nx.Files["targets"].Version++
					nx.Files["targets"].Rules[0].Principals = []string{world.GetKey(r.Range(1, 2)).ID}
				case 2:
					nx.RootVersion++
					nx.Files["targets"].Version++
				case 3:
					if len(nx.RootKeys) >= 2 {
						nx.RootThreshold = 3 - nx.RootThreshold
						nx.RootVersion++
					}
				}
				signers := map[int]bool{}
				for _, k := range cur.RootKeys {
					signers[k] = true
				}
				for _, k := range nx.RootKeys {
					signers[k] = true
				}
				nx.RootSigners = nil
				for _, k := range []int{0, 4, 5} {
					if signers[k] {
						nx.RootSigners = append(nx.RootSigners, k)
					}
				}
				b.add(world.Op{Kind: "stage", Actor: 0, Policy: nx})
				cur = nx
			} else {
				switch r.Intn(6) {
				case 0: // outsider declares itself root, self-signed only
					nx.RootKeys, nx.RootThreshold, nx.RootSigners = []int{advKey}, 1, []int{advKey}
					nx.TargetsKeys = []int{advKey}
					nx.Files["targets"].Signers = []int{advKey}
					nx.RootVersion++
				case 1: // rule file signed by a key that is not a rule-file principal
					nx.Files["targets"].Version++
					nx.Files["targets"].Rules[0].Principals = []string{world.GetKey(advKey).ID}
					nx.Files["targets"].Signers = []int{advKey}
				case 2: // root edited but signed by too few of the current root keys
					nx.RootVersion++
					nx.RootSigners = []int{advKey}
				case 3:
					nx.RootVersion = 0
				case 4:
					nx.Files["targets"].Version = 0
				case 5:
					nx.Files["orphan"] = &world.RuleFileSpec{Version: 1, Signers: []int{0}, Principals: []world.PrincipalSpec{world.KeyPrincipal(1)}, Rules: []world.RuleSpec{{Name: "orphan-rule", Patterns: []string{"git:" + relRef}, Principals: []string{world.GetKey(1).ID}, Threshold: 1}}}
				}
				b.add(world.Op{Kind: "stage", Actor: 6, Policy: nx, N: 1})
				// the generator keeps building on the last valid state
			}
		case 1:
			b.add(world.Op{Kind: "apply", Actor: []int{0, 0, 1, 6}[r.Intn(4)]})
		case 2:
			b.add(world.Op{Kind: "discard", Actor: 0})
		case 3:
			a := r.Range(1, 2)
			b.add(world.Op{Kind: "push", Actor: a, Ref: mainRef, Files: fileFor(r, i), CommitKey: a, EntryKey: -2})
		case 4:
			b.add(world.Op{Kind: "tamper", Actor: 6, N: r.Intn(6)})
		case 5:
			b.add(world.Op{Kind: "restart", Actor: 0})
		}
	}
	b.add(world.Op{Kind: "apply", Actor: 0})
	c.Ops = b.ops
	return c
}

func latestTargetFor(w *world.World, ref string) string {
	for i := len(w.Entries) - 1; i >= 0; i-- {
		e := w.Entries[i]
		if e.Kind != "annotation" && e.Ref == ref {
			return e.Target
		}
	}
	return ""
}

func (d c12) Execute(c *core.Case) *core.Result {
	if c.Engine == "git" {
		return d.executeAPI(c)
	}
	res := &core.Result{}
	w := world.NewWithKeys([]int{0, 1, 2, 3, 4, 5, advKey})
	w.Env.RecordEvents = false
	l := &model.Log{W: w}
	seq := []string{}
	applies, okApplies, lateOK := 0, 0, 0
	tampered := map[string]bool{}
	staged := 0
	// the spec currently at the staging tip, if the simulator knows it
	specAt := map[string]*world.PolicySpec{}
	var applied *world.PolicySpec
	appliedAt := "" // the commit the model's applied spec was published as
	defer func() {
		if res.Digest == "" {
			res.Digest = core.HashStrings(strings.Join(seq, ","), refDigest(w.St))
		}
	}()
	for i := range c.Ops {
		op := c.Ops[i]
		P, _ := w.St.GetRef(policyRef)
		S, _ := w.St.GetRef(stagingRef)
		eP, eS := latestTargetFor(w, policyRef), latestTargetFor(w, stagingRef)
		n0 := len(w.Entries)
		switch op.Kind {
		case "tamper":
			kind := op.N
			switch kind {
			case 0: // policy ref moved without a log entry (to the staging tip)
				if S != "" && S != P {
					w.St.SetRef(policyRef, S)
					tampered["policy-ref-without-entry"] = true
				}
			case 1: // staging ref moved without a log entry
				if S != "" {
					if cm, err := w.St.CommitInfo(S); err == nil {
						id, _ := w.St.Pool.PutCommit(&simstore.CommitSpec{Tree: cm.Tree, Parents: []string{S}, Message: "leftover\n", Name: "x", Email: "x@example.com", When: w.St.Clock.Tick()})
						w.St.SetRef(stagingRef, id)
						tampered["staging-ref-without-entry"] = true
					}
				}
			case 2: // a policy log entry without the ref having moved
				if S != "" && S != P {
					a := w.Actors[6]
					a.Proc.RunOp(op.ID, func() error { return world.RecordEntry(a.H, policyRef, S, -2) })
					w.SyncTruth(op.ID, 6, advKey, specAt[S])
					tampered["policy-entry-without-ref"] = true
				}
			case 3: // staging reset to a commit that does not descend from policy, with its entry
				if P != "" && S != "" {
					if cm, err := w.St.CommitInfo(S); err == nil {
						id, _ := w.St.Pool.PutCommit(&simstore.CommitSpec{Tree: cm.Tree, Message: "orphan staging\n", Name: "x", Email: "x@example.com", When: w.St.Clock.Tick()})
						w.St.SetRef(stagingRef, id)
						specAt[id] = specAt[S]
						a := w.Actors[6]
						a.Proc.RunOp(op.ID, func() error { return world.RecordEntry(a.H, stagingRef, id, -2) })
						w.SyncTruth(op.ID, 6, advKey, nil)
						tampered["staging-not-descendant"] = true
					}
				}
			case 5: // staging taken back to an OLDER applied policy commit (an ancestor of policy), with its entry: a rollback attempt
				older := ""
				for _, e := range w.Entries {
					if e.Kind == "reference" && e.Ref == policyRef && e.Target != P {
						older = e.Target
					}
				}
				if older != "" && P != "" {
					w.St.SetRef(stagingRef, older)
					a := w.Actors[6]
					a.Proc.RunOp(op.ID, func() error { return world.RecordEntry(a.H, stagingRef, older, -2) })
					w.SyncTruth(op.ID, 6, advKey, nil)
					tampered["staging-rolled-back-to-older-policy"] = true
				}
			case 4: // staging ref deleted (entry remains)
				if S != "" {
					w.St.DelRef(stagingRef)
					tampered["staging-ref-deleted"] = true
				}
			}
			seq = append(seq, fmt.Sprintf("tamper%d", kind))
			continue
		}
		out := w.Exec(&op)
		if out.Err == world.ErrSkipped {
			continue
		}
		if out.Panic != nil {
			res.Violate("C12", "panic", fmt.Sprintf("op #%d %s panicked: %v", op.ID, op.Kind, out.Panic), op.ID)
			return res
		}
		P2, _ := w.St.GetRef(policyRef)
		S2, _ := w.St.GetRef(stagingRef)
		status := "ok"
		if out.Err != nil {
			status = "fail"
		}
		seq = append(seq, op.Kind+":"+status)
		switch op.Kind {
		case "stage":
			staged++
			if out.Err == nil && S2 != "" {
				specAt[S2] = op.Policy
			}
		case "discard":
			if out.Err == nil {
				if P2 != "" && S2 != P2 {
					res.Violate("C12", "discard-did-not-restore", fmt.Sprintf("after Discard staging is %s, policy is %s", short10(S2), short10(P2)), op.ID)
				}
				if P2 == "" && S2 != "" {
					res.Violate("C12", "discard-did-not-restore", "after Discard with no applied policy the staging ref still exists", op.ID)
				}
			}
		case "apply":
			applies++
			consistent := (P == eP) && (S == eS)
			feats := []string{}
			for k := range tampered {
				feats = append(feats, "tamper="+k)
			}
			if out.Err != nil {
				if P2 != P {
					res.Violate("C12", "failed-apply-moved-policy", fmt.Sprintf("Apply failed (%v) but refs/gittuf/policy moved from %s to %s", out.Err, short10(P), short10(P2)), op.ID, feats...)
				}
				break
			}
			okApplies++
			if staged > 1 {
				lateOK++
			}
			if !consistent {
				res.Violate("C12", "applied-despite-ref-entry-disagreement", fmt.Sprintf("Apply succeeded although before it policy ref=%s vs latest policy entry=%s, staging ref=%s vs latest staging entry=%s", short10(P), short10(eP), short10(S), short10(eS)), op.ID, feats...)
				break
			}
			if P2 != S2 {
				res.Violate("C12", "policy-not-staged-tip", fmt.Sprintf("after a successful Apply refs/gittuf/policy is %s but staging is %s", short10(P2), short10(S2)), op.ID, feats...)
				break
			}
			if P != "" {
				if anc, err := w.St.IsAncestor(P, P2); err != nil || !anc {
					res.Violate("C12", "policy-not-descendant", fmt.Sprintf("after a successful Apply the policy tip %s does not descend from the previous tip %s", short10(P2), short10(P)), op.ID, feats...)
					break
				}
			}
			fresh := w.Entries[n0:]
			if len(fresh) == 0 || fresh[len(fresh)-1].Ref != policyRef || fresh[len(fresh)-1].Target != P2 {
				res.Violate("C12", "apply-without-entry", "a successful Apply did not append a policy entry for the new policy tip", op.ID, feats...)
				break
			}
			// the staged state must have passed internal verification: judge by the model when the spec is known
			// (only when the simulator knows exactly which spec the published commit holds)
			spec := specAt[P2]
			if spec == nil {
				applied = nil
			}
			if P != "" && P != appliedAt {
				// the state being replaced is not the one the last successful Apply published:
				// tampering put another commit on the policy ref together with its entry
				// (a consistent pair is indistinguishable from an Apply). Judge against what
				// that commit holds, if the simulator knows.
				applied = specAt[P]
			}
			if spec != nil && (applied != nil || P == "") {
				if df, _ := stateDefects(applied, spec); len(df) > 0 {
					f2 := append(append([]string{}, feats...), df...)
					res.Violate("C12", "invalid-state-published", fmt.Sprintf("Apply published a policy state that breaks the chain of trust against the state it replaces: %s", strings.Join(df, ", ")), op.ID, f2...)
					applied, appliedAt = spec, P2
					break
				}
				applied, appliedAt = spec, P2
			} else {
				applied, appliedAt = spec, P2
			}
			// writer <-> verifier link: what Apply published must load and verify
			lo := world.Op{ID: 7000 + i, Kind: "loadPolicy", Actor: 3}
			w.Actors[3].Proc.Restart()
			w.Exec(&lo)
			if v := w.Verdicts[lo.ID]; v.Class != "accept" {
				res.Violate("C12", "published-state-rejected", fmt.Sprintf("Apply succeeded but a fresh LoadCurrentState of the published policy fails: %s", v.Err), op.ID, feats...)
				break
			}
			if len(l.PositionsForRef(mainRef)) > 0 {
				vo := world.Op{ID: 8000 + i, Kind: "verify", Actor: 3, Ref: mainRef, Mode: "full"}
				w.Exec(&vo)
				exp, why, _ := expectFor(l, mainRef, "full", 0)
				if v := w.Verdicts[vo.ID]; exp == mustAccept && v.Class != "accept" {
					res.Violate("C12", "published-state-rejected", fmt.Sprintf("after a successful Apply full verification of an authorised history fails (%s) although %s", v.Err, why), op.ID, feats...)
				}
			}
		}
		if len(res.Violations) > 0 {
			return res
		}
	}
	res.Steps = len(c.Ops)
	res.Digest = core.HashStrings(strings.Join(seq, ","), refDigest(w.St))
	res.StateKey = core.HashStrings(strings.Join(seq, ","))
	res.Nontrivial = applies >= 2 && lateOK >= 1
	res.Stat("probe:apply_refused", boolInt(applies > okApplies))
	res.Stat("probe:tampering_present", boolInt(len(tampered) > 0))
	res.Stat("probe:root_rotated_over_staged_steps", boolInt(okApplies >= 2))
	res.Sample = map[string]any{"ops": describeOps(c.Ops), "sequence": seq, "tampering": sortedKeys(tampered)}
	return res
}
