package props

import (
	"fmt"
	"strings"

	"github.com/gittuf/gittuf/verifsim/core"
	"github.com/gittuf/gittuf/verifsim/model"
	"github.com/gittuf/gittuf/verifsim/world"
)

// C01 — verification accepts only histories authorised by the policy in force.
type c01 struct{}

func init() {
	core.Register(c01{})
	core.TierTable["C01"] = map[string]core.TierCfg{"quick": {Runs: 30000, BudgetS: 75}, "thorough": {Runs: 1500000, BudgetS: 1200}}
}

func (c01) ID() string    { return "C01" }
func (c01) Level() string { return "exploration" }
func (c01) Rule() string {
	return "A case is a seeded multi-actor history: a generated policy (2-4 developers, thresholds 1-3, 0-2 delegation levels, protected main and release*, unprotected scratch) applied by the root holder, then 3-25 operations whose order the seed decides — pushes by authorised, de-authorised, never-authorised, unknown-key and unsigned actors, multi-party approvals bound to (ref, from, tree), policy edits (add/remove principal, threshold, version) through stage+apply, skip annotations, propagation entries — and verifications in full / latest-only / from-entry mode by any actor at any point and for every ref at the end. The reference model decides from ground truth (who signed what under which applied policy spec) whether each verdict MUST accept, MUST reject, or is unspecified. Distinct = distinct (policy shape, per-entry authorised/revoked pattern, verdict vector); non-trivial = at least 3 reference entries on a protected ref and at least one specified verdict compared."
}
func (c01) Components() map[string]string {
	return map[string]string{"internal/policy (verifier, LoadState, Apply)": "real", "pkg/rsl": "real", "internal/attestations": "real", "internal/signerverifier/{ssh,dsse,gitobject}": "real", "internal/tuf/v02": "real", "gitstore.Storer": "stub (SimStore)", "envelope signing": "in-process sshsig (verified by gittuf's real ssh verifier)"}
}
func (c01) Assumptions() []string {
	return []string{
		"policy in force for an entry = state applied by the last policy entry strictly before it (Appendix A.1)",
		"accept is required only for histories whose entries for the ref are all authorised and none revoked; reject is required whenever an unrevoked entry for the ref in the verified range is unauthorised; everything else is unspecified here (C07 decides recoveries)",
		"principals generated for C01 share no keys",
	}
}

func (c01) Generate(r *core.Rand, tier string, idx uint64) *core.Case {
	c := &core.Case{Property: "C01", Engine: "simstore", Config: map[string]int{}, Flags: map[string]bool{}}
	cfg := drawPWCfg(r, tier)
	// second configuration: trigger features of open findings are generated in a minority of runs only
	cfg.globalRules = r.Chance(0.15)
	cfg.propagation = r.Chance(0.15)
	g := &pwGen{r: r, cfg: cfg, b: &opBuilder{}}
	g.generate()
	c.Ops = g.b.ops
	c.Config["nDev"] = cfg.nDev
	c.Flags["globalRules"] = cfg.globalRules
	c.Flags["propagation"] = cfg.propagation
	return c
}

// pwKeys is the actor->key table of policy worlds.
func pwKeys(nDev int) []int {
	keys := []int{0}
	for i := 1; i <= nDev; i++ {
		keys = append(keys, i)
	}
	return append(keys, outsiderKey, outsiderKey+1)
}

type expectation int

const (
	unspecified expectation = iota
	mustAccept
	mustReject
)

// expectFor computes the model's expectation for verifying ref in the given
// mode over the current log. from is the position of the first examined entry
// (full: first entry for ref).
func expectFor(l *model.Log, ref string, mode string, fromPos int) (expectation, string, []string) {
	pos := l.PositionsForRef(ref)
	if len(pos) == 0 {
		return unspecified, "no entries", nil
	}
	examined := []int{}
	switch mode {
	case "full":
		examined = pos
	case "latest":
		examined = pos[len(pos)-1:]
	case "from":
		for _, p := range pos {
			if p >= fromPos {
				examined = append(examined, p)
			}
		}
	}
	allOK := true
	anyRevoked := false
	for _, p := range pos {
		e := l.W.Entries[p]
		if e.Kind == "reference" && l.Revoked(p) {
			anyRevoked = true
		}
		if !l.Decide(p).Authorized {
			allOK = false
		}
	}
	for _, p := range examined {
		e := l.W.Entries[p]
		if l.PolicyBefore(p) == nil {
			return unspecified, "entry before any policy", nil
		}
		if e.Kind == "reference" && l.Revoked(p) {
			continue
		}
		d := l.Decide(p)
		if !d.Authorized {
			feats := []string{"entry-kind=" + e.Kind}
			if d.GlobalFail {
				feats = append(feats, "global-rule-unmet")
			}
			if !d.DelegationOK {
				feats = append(feats, "unauthorised-by-delegation-rules")
			}
			if pol := l.PolicyBefore(p); pol != nil && len(pol.GlobalRules) > 0 {
				feats = append(feats, "policy-has-global-rule")
			}
			if anyRevoked {
				feats = append(feats, "ref-has-revoked-entries")
			}
			if recoveryFixes(l, ref, examined[0])[p] {
				feats = append(feats, "entry-is-recovery-fix")
			}
			return mustReject, fmt.Sprintf("entry #%d (op %d, %s, signer key %d) is not authorised: %s", p, e.OpID, e.Kind, e.Signer, d.Why), feats
		}
	}
	if allOK && !anyRevoked {
		return mustAccept, "every entry for the ref is authorised and none is revoked", nil
	}
	return unspecified, "revocations present", nil
}

func (d c01) Execute(c *core.Case) *core.Result {
	res := &core.Result{}
	w := world.NewWithKeys(pwKeys(c.Config["nDev"]))
	w.Env.RecordEvents = false
	l := &model.Log{W: w}
	verdictVec := []string{}
	specified := 0
	compare := func(op *world.Op, v world.Verdict, fromPos int) bool {
		exp, why, feats := expectFor(l, op.Ref, modeOf(op), fromPos)
		switch exp {
		case unspecified:
			res.Stat("verdicts_unspecified", 1)
			return true
		case mustAccept:
			specified++
			res.Stat("verdicts_must_accept", 1)
			if v.Class != "accept" {
				res.Violate("C01", "false-reject", fmt.Sprintf("%s verification of %s by actor %d returned %s (%s) although %s", modeOf(op), op.Ref, op.Actor, v.Class, v.Err, why), op.ID, "mode="+modeOf(op))
				return false
			}
			pos := l.PositionsForRef(op.Ref)
			if want := w.Entries[pos[len(pos)-1]].Target; v.Tip != want {
				res.Violate("C01", "wrong-tip", fmt.Sprintf("%s verification of %s reported tip %s, the latest entry records %s", modeOf(op), op.Ref, short10(v.Tip), short10(want)), op.ID, "mode="+modeOf(op))
				return false
			}
		case mustReject:
			specified++
			res.Stat("verdicts_must_reject", 1)
			if v.Class == "accept" {
				res.Violate("C01", "false-accept", fmt.Sprintf("%s verification of %s by actor %d succeeded although %s", modeOf(op), op.Ref, op.Actor, why), op.ID, append(feats, "mode="+modeOf(op))...)
				return false
			}
			if strings.HasPrefix(v.Class, "panic") {
				res.Violate("C01", "panic", fmt.Sprintf("%s verification of %s panicked: %q", modeOf(op), op.Ref, v.Err), op.ID, "mode="+modeOf(op))
				return false
			}
			if v.Class == "other" || v.Class == "injected" {
				// the statement asks for a failure, not for a particular error: counted, not reported
				res.Stat("rejections_with_an_unclassified_error", 1)
			}
		}
		return true
	}
	ok := true
	for i := range c.Ops {
		op := &c.Ops[i]
		out := w.Exec(op)
		if out.Err == world.ErrSkipped {
			continue
		}
		if out.Panic != nil {
			res.Violate("C01", "panic", fmt.Sprintf("op #%d %s panicked: %v", op.ID, op.Kind, out.Panic), op.ID)
			ok = false
			break
		}
		if op.Kind == "verify" {
			v := w.Verdicts[op.ID]
			verdictVec = append(verdictVec, v.Class)
			fromPos := 0
			if op.Mode == "from" {
				if e, ok := w.ByOp[op.FromEntry]; ok {
					fromPos = posOf(w, e.ID)
				}
			}
			if !compare(op, v, fromPos) {
				ok = false
				break
			}
			continue
		}
		if out.Err != nil && (op.Kind == "stage" || op.Kind == "apply") {
			// a policy operation of the honest root holder failing is a generator problem, not a finding
			res.HarnessErr = fmt.Sprintf("policy op #%d %s failed: %v", op.ID, op.Kind, out.Err)
			return res
		}
	}
	// final round: every ref, every mode, by a fresh observer
	if ok {
		id := 10000
		for _, ref := range []string{mainRef, relRef, openRef, main2Ref} {
			pos := l.PositionsForRef(ref)
			if len(pos) == 0 {
				continue
			}
			modes := []world.Op{{Kind: "verify", Ref: ref, Mode: "full"}, {Kind: "verify", Ref: ref, Mode: "latest"}}
			// from-entry for a seeded reference entry of the ref
			rr := core.NewRand(c.Seed ^ uint64(len(pos)))
			p := pos[rr.Intn(len(pos))]
			if w.Entries[p].Kind == "reference" {
				modes = append(modes, world.Op{Kind: "verify", Ref: ref, Mode: "from", FromEntry: w.Entries[p].OpID})
			}
			for _, m := range modes {
				id++
				m.ID = id
				m.Actor = 0
				w.Actors[0].Proc.Restart()
				out := w.Exec(&m)
				if out.Panic != nil {
					res.Violate("C01", "panic", fmt.Sprintf("verification panicked: %v", out.Panic), m.ID)
					ok = false
					break
				}
				v := w.Verdicts[m.ID]
				if v.Class == "skipped" {
					continue
				}
				verdictVec = append(verdictVec, v.Class)
				fromPos := 0
				if m.Mode == "from" {
					fromPos = p
					// the op id may have appended several entries; use the exact entry the verifier was given
					if e, ok2 := w.ByOp[m.FromEntry]; ok2 {
						fromPos = posOf(w, e.ID)
					}
				}
				if !compare(&m, v, fromPos) {
					ok = false
					break
				}
			}
			if !ok {
				break
			}
		}
	}
	pattern := []string{}
	protectedEntries := 0
	for i, e := range w.Entries {
		if e.Kind == "annotation" || strings.HasPrefix(e.Ref, "refs/gittuf/") {
			pattern = append(pattern, e.Kind[:1]+strings.TrimPrefix(e.Ref, "refs/gittuf/"))
			continue
		}
		dd := l.Decide(i)
		if dd.Protected {
			protectedEntries++
		}
		pattern = append(pattern, fmt.Sprintf("%s:%v:%v:%v", strings.TrimPrefix(e.Ref, "refs/heads/"), dd.Protected, dd.Authorized, l.Revoked(i)))
	}
	res.Steps = len(c.Ops)
	res.Digest = core.HashStrings(strings.Join(pattern, ","), strings.Join(verdictVec, ","), refDigest(w.St))
	res.StateKey = core.HashStrings(strings.Join(pattern, ","), strings.Join(verdictVec, ","))
	res.Nontrivial = protectedEntries >= 3 && specified >= 1
	res.Stat("probe:threshold_met_only_via_approval", boolInt(thresholdViaApproval(l)))
	res.Stat("probe:delegated_rule_authorised_entry", boolInt(delegatedAuth(l)))
	res.Stat("probe:deauthorised_signer_pushed", boolInt(strings.Contains(strings.Join(pattern, ","), "main:true:false")))
	res.Sample = map[string]any{"ops": describeOps(c.Ops), "entries": pattern, "verdicts": verdictVec}
	return res
}

func modeOf(op *world.Op) string {
	if op.Mode == "" {
		return "full"
	}
	return op.Mode
}

func posOf(w *world.World, id string) int {
	for i, e := range w.Entries {
		if e.ID == id {
			return i
		}
	}
	return -1
}

func thresholdViaApproval(l *model.Log) bool {
	for i, e := range l.W.Entries {
		if e.Kind != "reference" || strings.HasPrefix(e.Ref, "refs/gittuf/") {
			continue
		}
		if d := l.Decide(i); d.Authorized && d.Protected && len(l.SignersFor(i).EnvelopeKeys) > 0 {
			return true
		}
	}
	return false
}

func delegatedAuth(l *model.Log) bool {
	for i, e := range l.W.Entries {
		if e.Kind != "reference" || strings.HasPrefix(e.Ref, "refs/gittuf/") {
			continue
		}
		if (e.Signer == outsiderKey || e.Signer == outsiderKey+1) && l.Decide(i).Authorized && l.Decide(i).Protected {
			return true
		}
	}
	return false
}

// recoveryFixes returns the positions the recovery rule designates as fix
// entries for ref (first unskipped tree-same entry after a revoked violation).
func recoveryFixes(l *model.Log, ref string, fromPos int) map[int]bool {
	out := map[int]bool{}
	pos := l.PositionsForRef(ref)
	E := l.W.Entries
	tree := func(p int) string {
		if c, ok := l.W.CommitIdx[E[p].Target]; ok {
			return c.Tree
		}
		return "?" + E[p].Target
	}
	i := 0
	for i < len(pos) && pos[i] < fromPos {
		i++
	}
	for i < len(pos) {
		p := pos[i]
		if E[p].Kind != "reference" || out[p] || l.PolicyBefore(p) == nil || l.Decide(p).Authorized || !l.Revoked(p) {
			i++
			continue
		}
		lastGood := -1
		for j := i - 1; j >= 0; j-- {
			if !l.Revoked(pos[j]) {
				lastGood = pos[j]
				break
			}
		}
		if lastGood < 0 {
			i++
			continue
		}
		fix := -1
		for k := i + 1; k < len(pos); k++ {
			if E[pos[k]].Kind == "reference" && !l.Revoked(pos[k]) && tree(pos[k]) == tree(lastGood) {
				fix = k
				break
			}
		}
		if fix < 0 {
			break
		}
		out[pos[fix]] = true
		i = fix + 1
	}
	return out
}
