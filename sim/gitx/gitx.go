// Package gitx is the real-git backend's plumbing: scratch repositories on
// tmpfs, and NUL-delimited ground-truth reads and writes that do not go
// through gitinterface's parsers.
package gitx

import (
	"bytes"
	"fmt"
	"os"
	"os/exec"
	"path/filepath"
	"sort"
	"strings"
	"time"
)

// Scratch is a per-run directory under /dev/shm (tmpfs; outside /repo, /verif
// and /tmp), removed by Close.
type Scratch struct {
	Dir string
}

var scratchSeq int

func scratchRoot() string {
	if d := os.Getenv("VERIF_SCRATCH"); d != "" {
		return d
	}
	if st, err := os.Stat("/dev/shm"); err == nil && st.IsDir() {
		return "/dev/shm"
	}
	return os.TempDir()
}

func NewScratch() (*Scratch, error) {
	scratchSeq++
	dir := filepath.Join(scratchRoot(), fmt.Sprintf("verifsim-%d-%d", os.Getpid(), scratchSeq))
	if err := os.MkdirAll(dir, 0o755); err != nil {
		return nil, err
	}
	return &Scratch{Dir: dir}, nil
}

func (s *Scratch) Close() { _ = os.RemoveAll(s.Dir) }

// CleanStale removes scratch directories of dead processes.
func CleanStale() {
	ents, _ := filepath.Glob(filepath.Join(scratchRoot(), "verifsim-*"))
	for _, e := range ents {
		var pid, n int
		if _, err := fmt.Sscanf(filepath.Base(e), "verifsim-%d-%d", &pid, &n); err != nil {
			continue
		}
		if _, err := os.Stat(fmt.Sprintf("/proc/%d", pid)); err != nil {
			_ = os.RemoveAll(e)
		}
	}
}

// SetupProcessEnv isolates git from user/system configuration for every git
// subprocess of this process (gitinterface's executor inherits os.Environ).
func SetupProcessEnv(home string) {
	os.Setenv("HOME", home)
	os.Setenv("GIT_CONFIG_GLOBAL", "/dev/null")
	os.Setenv("GIT_CONFIG_NOSYSTEM", "1")
	os.Setenv("GIT_AUTHOR_NAME", "sim")
	os.Setenv("GIT_AUTHOR_EMAIL", "sim@example.com")
	os.Setenv("GIT_COMMITTER_NAME", "sim")
	os.Setenv("GIT_COMMITTER_EMAIL", "sim@example.com")
	os.Setenv("GIT_TERMINAL_PROMPT", "0")
	os.Unsetenv("GIT_DIR")
	os.Unsetenv("GIT_WORK_TREE")
}

var FixedTime = time.Date(2024, 1, 1, 0, 0, 0, 0, time.UTC)

type Repo struct {
	Dir  string // working tree or bare dir
	Bare bool
	tick int
}

func (s *Scratch) Init(name string, bare bool) (*Repo, error) {
	dir := filepath.Join(s.Dir, name)
	args := []string{"init", "-q", "-b", "main"}
	if bare {
		args = append(args, "--bare")
	}
	args = append(args, dir)
	if out, err := exec.Command("git", args...).CombinedOutput(); err != nil {
		return nil, fmt.Errorf("git init: %v: %s", err, out)
	}
	r := &Repo{Dir: dir, Bare: bare}
	for _, kv := range [][2]string{{"user.name", "sim"}, {"user.email", "sim@example.com"}, {"core.quotepath", "true"}, {"gc.auto", "0"}, {"receive.denyCurrentBranch", "ignore"}} {
		if _, err := r.Git(nil, "config", kv[0], kv[1]); err != nil {
			return nil, err
		}
	}
	return r, nil
}

func (s *Scratch) Clone(src *Repo, name string) (*Repo, error) {
	dir := filepath.Join(s.Dir, name)
	if out, err := exec.Command("git", "clone", "-q", src.Dir, dir).CombinedOutput(); err != nil {
		return nil, fmt.Errorf("git clone: %v: %s", err, out)
	}
	r := &Repo{Dir: dir}
	for _, kv := range [][2]string{{"user.name", "sim"}, {"user.email", "sim@example.com"}, {"gc.auto", "0"}} {
		if _, err := r.Git(nil, "config", kv[0], kv[1]); err != nil {
			return nil, err
		}
	}
	return r, nil
}

// Git runs git in the repository with a fixed, advancing commit date.
func (r *Repo) Git(stdin []byte, args ...string) (string, error) {
	cmd := exec.Command("git", args...)
	cmd.Dir = r.Dir
	r.tick++
	d := FixedTime.Add(time.Duration(r.tick) * time.Second).Format(time.RFC3339)
	cmd.Env = append(os.Environ(), "GIT_AUTHOR_DATE="+d, "GIT_COMMITTER_DATE="+d, "LC_ALL=C")
	if stdin != nil {
		cmd.Stdin = bytes.NewReader(stdin)
	}
	var out, errb bytes.Buffer
	cmd.Stdout, cmd.Stderr = &out, &errb
	if err := cmd.Run(); err != nil {
		return out.String(), fmt.Errorf("git %s: %v: %s", strings.Join(args, " "), err, strings.TrimSpace(errb.String()))
	}
	return out.String(), nil
}

func (r *Repo) MustGit(stdin []byte, args ...string) string {
	out, err := r.Git(stdin, args...)
	if err != nil {
		panic(HarnessError{err})
	}
	return strings.TrimSpace(out)
}

// HarnessError marks trouble of the harness itself (exit 2, never a violation).
type HarnessError struct{ Err error }

func (h HarnessError) Error() string { return h.Err.Error() }

func (r *Repo) WriteBlob(data []byte) string {
	return r.MustGit(data, "hash-object", "-w", "--stdin")
}

type tnode struct {
	blob     string
	children map[string]*tnode
}

// WriteTree writes (nested) trees for path -> blob id using NUL-delimited
// mktree input, so any byte Git allows in a name is stored verbatim.
func (r *Repo) WriteTree(files map[string]string) string {
	root := &tnode{children: map[string]*tnode{}}
	for p, id := range files {
		cur := root
		parts := strings.Split(p, "/")
		for i, part := range parts {
			if i == len(parts)-1 {
				cur.children[part] = &tnode{blob: id}
				break
			}
			ch, ok := cur.children[part]
			if !ok || ch.children == nil {
				ch = &tnode{children: map[string]*tnode{}}
				cur.children[part] = ch
			}
			cur = ch
		}
	}
	return r.writeNode(root)
}

func (r *Repo) writeNode(n *tnode) string {
	names := make([]string, 0, len(n.children))
	for k := range n.children {
		names = append(names, k)
	}
	sort.Strings(names)
	var in bytes.Buffer
	for _, name := range names {
		ch := n.children[name]
		if ch.children != nil {
			fmt.Fprintf(&in, "040000 tree %s\t%s\x00", r.writeNode(ch), name)
		} else if mode, id, ok := strings.Cut(ch.blob, ":"); ok {
			// "mode:id" — an executable (100755) or a symbolic link (120000)
			fmt.Fprintf(&in, "%s blob %s\t%s\x00", mode, id, name)
		} else {
			fmt.Fprintf(&in, "100644 blob %s\t%s\x00", ch.blob, name)
		}
	}
	return r.MustGit(in.Bytes(), "mktree", "-z")
}

// ExecPrefix / LinkPrefix mark a content string as an executable file or as the
// target of a symbolic link (WriteFiles strips the prefix and sets the mode).
const (
	ExecPrefix = "\x00exec:"
	LinkPrefix = "\x00link:"
)

// WriteFiles stores contents as blobs and returns the tree.
func (r *Repo) WriteFiles(files map[string]string) string {
	ids := map[string]string{}
	for p, c := range files {
		switch {
		case strings.HasPrefix(c, ExecPrefix):
			ids[p] = "100755:" + r.WriteBlob([]byte(strings.TrimPrefix(c, ExecPrefix)))
		case strings.HasPrefix(c, LinkPrefix):
			ids[p] = "120000:" + r.WriteBlob([]byte(strings.TrimPrefix(c, LinkPrefix)))
		default:
			ids[p] = r.WriteBlob([]byte(c))
		}
	}
	return r.WriteTree(ids)
}

func (r *Repo) CommitTree(tree string, parents []string, msg string) string {
	args := []string{"commit-tree", "-m", msg}
	for _, p := range parents {
		args = append(args, "-p", p)
	}
	args = append(args, tree)
	return r.MustGit(nil, args...)
}

func (r *Repo) SetRef(ref, id string) { r.MustGit(nil, "update-ref", ref, id) }

func (r *Repo) GetRef(ref string) string {
	out, err := r.Git(nil, "rev-parse", "-q", "--verify", ref)
	if err != nil {
		return ""
	}
	return strings.TrimSpace(out)
}

// Refs lists every reference.
func (r *Repo) Refs() map[string]string {
	out := r.MustGit(nil, "for-each-ref", "--format=%(refname) %(objectname)")
	m := map[string]string{}
	for _, l := range strings.Split(out, "\n") {
		if f := strings.Fields(l); len(f) == 2 {
			m[f[0]] = f[1]
		}
	}
	return m
}

// ListTree returns path -> blob id ("mode:id" for anything but a regular file) of the whole tree, read with ls-tree -z.
func (r *Repo) ListTree(treeish string) map[string]string {
	out, err := r.Git(nil, "ls-tree", "-r", "-z", "--full-tree", treeish)
	if err != nil {
		panic(HarnessError{err})
	}
	m := map[string]string{}
	for _, rec := range strings.Split(out, "\x00") {
		if rec == "" {
			continue
		}
		meta, name, ok := strings.Cut(rec, "\t")
		if !ok {
			continue
		}
		f := strings.Fields(meta)
		if len(f) == 3 {
			if f[0] == "100644" {
				m[name] = f[2]
			} else {
				m[name] = f[0] + ":" + f[2] // anything but a regular file carries its mode
			}
		}
	}
	return m
}

func (r *Repo) TreeOf(commit string) string {
	return r.MustGit(nil, "rev-parse", commit+"^{tree}")
}

// CommitInfo returns parents and message of a commit through cat-file.
func (r *Repo) CommitInfo(id string) (parents []string, tree, msg string, err error) {
	out, e := r.Git(nil, "cat-file", "commit", id)
	if e != nil {
		return nil, "", "", e
	}
	head, body, _ := strings.Cut(out, "\n\n")
	for _, l := range strings.Split(head, "\n") {
		if strings.HasPrefix(l, "parent ") {
			parents = append(parents, strings.TrimPrefix(l, "parent "))
		}
		if strings.HasPrefix(l, "tree ") {
			tree = strings.TrimPrefix(l, "tree ")
		}
	}
	return parents, tree, body, nil
}

// GitDir returns the repository's git directory.
func (r *Repo) GitDir() string {
	if r.Bare {
		return r.Dir
	}
	return filepath.Join(r.Dir, ".git")
}
