package core

import (
	"fmt"
	"os"
	"os/exec"
	"strings"
)

// Digests prints "idx digest statekey violations" for run indexes [from,to).
func Digests(d Driver, tier string, seed uint64, from, to uint64) {
	for i := from; i < to; i++ {
		rs := SeedFor(seed, i)
		c := d.Generate(NewRand(rs), tier, i)
		if c == nil {
			fmt.Printf("%d - - 0\n", i)
			continue
		}
		c.Seed = rs
		res := SafeExecute(d, c)
		if res.HarnessErr != "" {
			fmt.Printf("%d HARNESS:%s - 0\n", i, strings.ReplaceAll(res.HarnessErr, " ", "_"))
			continue
		}
		cls := []string{}
		for _, v := range res.Violations {
			cls = append(cls, v.Class)
		}
		fmt.Printf("%d %s %s %d:%s\n", i, res.Digest, res.StateKey, len(res.Violations), strings.Join(cls, ","))
	}
}

// SelfTestDeterminism runs the same run indexes in several fresh processes
// under different GOMAXPROCS values and compares every line. Exit 0 when all
// agree, 2 otherwise (this is a harness property, never a VIOLATION).
func SelfTestDeterminism(ids []string, n uint64, seed uint64) int {
	self, _ := os.Executable()
	rc := 0
	for _, id := range ids {
		if _, ok := Drivers[id]; !ok {
			fmt.Fprintf(os.Stderr, "unknown property %s\n", id)
			return 2
		}
		type job struct {
			procs string
			out   string
			err   error
		}
		settings := []string{"1", "4", "16", "1", "4", "16"}
		// split the index range over several processes per setting so that >= 30 processes run in total
		parts := uint64(5)
		results := map[string][]string{}
		ch := make(chan job, 64)
		count := 0
		for si, gm := range settings {
			for p := uint64(0); p < parts; p++ {
				from, to := p*n/parts, (p+1)*n/parts
				count++
				go func(si int, gm string, from, to uint64) {
					cmd := exec.Command(self, "digests", id, "--seed", fmt.Sprint(seed), "--from", fmt.Sprint(from), "--to", fmt.Sprint(to))
					cmd.Env = append(os.Environ(), "GOMAXPROCS="+gm)
					out, err := cmd.Output()
					ch <- job{procs: fmt.Sprintf("%d/%s", si, gm), out: string(out), err: err}
				}(si, gm, from, to)
			}
		}
		for i := 0; i < count; i++ {
			j := <-ch
			if j.err != nil {
				fmt.Fprintf(os.Stderr, "selftest %s: child failed: %v\n", id, j.err)
				rc = 2
				continue
			}
			results[j.procs] = append(results[j.procs], strings.Split(strings.TrimSpace(j.out), "\n")...)
		}
		// compare line sets per setting
		var ref map[string]string
		mismatches := 0
		for _, lines := range results {
			m := map[string]string{}
			for _, l := range lines {
				f := strings.SplitN(l, " ", 2)
				if len(f) == 2 {
					m[f[0]] = f[1]
				}
			}
			if ref == nil {
				ref = m
				continue
			}
			for k, v := range m {
				if ref[k] != v {
					mismatches++
					if mismatches <= 5 {
						fmt.Printf("selftest %s: run %s differs: %q vs %q\n", id, k, ref[k], v)
					}
				}
			}
		}
		harness := 0
		for _, v := range ref {
			if strings.HasPrefix(v, "HARNESS:") {
				harness++
			}
		}
		fmt.Printf("selftest-determinism %s: %d run indexes x %d processes (GOMAXPROCS 1/4/16, twice), %d mismatching lines, %d harness errors\n", id, len(ref), count, mismatches, harness)
		if mismatches > 0 || harness > 0 {
			rc = 2
		}
	}
	return rc
}
