package core

import (
	"crypto/sha256"
	"encoding/hex"
	"encoding/json"
	"fmt"
	"os"
	"path/filepath"
	"sort"
	"strings"

	"github.com/gittuf/gittuf/verifsim/sched"
	"github.com/gittuf/gittuf/verifsim/world"
)

type worldOp = world.Op

// Case is one fully determined execution: world configuration, operation
// list, schedule and fault list. It is what generators emit, what executors
// consume and — with the observed violation — what a replay file holds.
type Case struct {
	Property string            `json:"property"`
	Engine   string            `json:"engine"` // simstore | git
	Seed     uint64            `json:"seed"`
	Config   map[string]int    `json:"config,omitempty"`
	Flags    map[string]bool   `json:"flags,omitempty"`
	Strs     map[string]string `json:"strs,omitempty"`
	Ops      []world.Op        `json:"ops"`
	Schedule []int             `json:"schedule,omitempty"`
	Faults   []sched.Fault     `json:"faults,omitempty"`
}

func (c *Case) Clone() *Case {
	b, _ := json.Marshal(c)
	n := &Case{}
	_ = json.Unmarshal(b, n)
	return n
}

// Violation is an oracle mismatch.
type Violation struct {
	Property string   `json:"property"`
	Class    string   `json:"class"`
	Detail   string   `json:"detail"`
	Features []string `json:"features,omitempty"` // attribution: what had to be present
	OpID     int      `json:"opId,omitempty"`
	// Faults, when set, is the exact fault plan of a sweep that produced the
	// violation; the replay then carries just that plan.
	Faults []sched.Fault `json:"faults,omitempty"`
	// Schedule, when set, is the explicit schedule the run took.
	Schedule []int `json:"schedule,omitempty"`
}

func (v *Violation) HasFeature(f string) bool {
	for _, x := range v.Features {
		if x == f {
			return true
		}
	}
	return false
}

// Result of executing one Case.
type Result struct {
	Violations []Violation    `json:"violations,omitempty"`
	Digest     string         `json:"digest"`
	Stats      map[string]int `json:"stats,omitempty"`
	// StateKey identifies the shape of what was explored (for distinct counts).
	StateKey string `json:"stateKey,omitempty"`
	// Nontrivial says whether this run exercised the property in a
	// non-degenerate way (the driver's stated rule).
	Nontrivial bool   `json:"nontrivial"`
	Sample     any    `json:"sample,omitempty"`
	HarnessErr string `json:"harnessErr,omitempty"`
	Steps      int    `json:"steps,omitempty"`
	SimTime    int64  `json:"simTime,omitempty"`
}

func (r *Result) Stat(k string, n int) {
	if r.Stats == nil {
		r.Stats = map[string]int{}
	}
	r.Stats[k] += n
}

func (r *Result) Violate(prop, class, detail string, opID int, features ...string) {
	sort.Strings(features)
	r.Violations = append(r.Violations, Violation{Property: prop, Class: class, Detail: detail, Features: features, OpID: opID})
}

// First returns the first violation or nil.
func (r *Result) First() *Violation {
	if len(r.Violations) == 0 {
		return nil
	}
	return &r.Violations[0]
}

// Replay is the on-disk replay file.
type Replay struct {
	Property  string   `json:"property"`
	Class     string   `json:"class"`
	Detail    string   `json:"detail"`
	Features  []string `json:"features,omitempty"`
	Digest    string   `json:"digest"`
	Minimised bool     `json:"minimised"`
	RepoHead  string   `json:"repoHead,omitempty"`
	Case      *Case    `json:"case"`
	Trace     []string `json:"trace,omitempty"`
	Version   int      `json:"engineVersion"`
}

const EngineVersion = 1

func HashStrings(parts ...string) string {
	h := sha256.Sum256([]byte(strings.Join(parts, "\x00")))
	return hex.EncodeToString(h[:8])
}

func WriteReplay(dir string, rp *Replay) (string, error) {
	if err := os.MkdirAll(dir, 0o755); err != nil {
		return "", err
	}
	b, err := json.MarshalIndent(rp, "", " ")
	if err != nil {
		return "", err
	}
	name := fmt.Sprintf("%s-%d-%s.json", rp.Property, rp.Case.Seed, HashStrings(string(b)))
	p := filepath.Join(dir, name)
	return p, os.WriteFile(p, b, 0o644)
}

func ReadReplay(path string) (*Replay, error) {
	b, err := os.ReadFile(path)
	if err != nil {
		return nil, err
	}
	rp := &Replay{}
	if err := json.Unmarshal(b, rp); err != nil {
		return nil, err
	}
	return rp, nil
}
