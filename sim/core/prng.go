// Package core holds the pieces every check shares: the PRNG that decides
// everything, replay files, minimisation, evidence and the worker pool.
package core

// Rand is a SplitMix64-seeded xoshiro-free, dependency-free PRNG. Every choice a
// run makes (world shape, operations, schedule, faults) is drawn from one Rand
// initialised from VERIF_SEED, so one integer is one execution.
type Rand struct{ s uint64 }

func NewRand(seed uint64) *Rand { return &Rand{s: seed ^ 0x9E3779B97F4A7C15} }

func (r *Rand) Uint64() uint64 {
	r.s += 0x9E3779B97F4A7C15
	z := r.s
	z = (z ^ (z >> 30)) * 0xBF58476D1CE4E5B9
	z = (z ^ (z >> 27)) * 0x94D049BB133111EB
	return z ^ (z >> 31)
}

// Intn returns a value in [0,n). n<=0 returns 0.
func (r *Rand) Intn(n int) int {
	if n <= 0 {
		return 0
	}
	return int(r.Uint64() % uint64(n))
}

// Range returns a value in [lo,hi].
func (r *Rand) Range(lo, hi int) int {
	if hi <= lo {
		return lo
	}
	return lo + r.Intn(hi-lo+1)
}

func (r *Rand) Float() float64 { return float64(r.Uint64()>>11) / (1 << 53) }

func (r *Rand) Chance(p float64) bool { return r.Float() < p }

// Derive returns an independent stream for a sub-purpose (worker, run).
func (r *Rand) Derive(tag uint64) *Rand {
	return NewRand(r.Uint64() ^ (tag * 0xD6E8FEB86659FD93))
}

// Pick returns a random element index weighted by w.
func (r *Rand) Weighted(w []int) int {
	t := 0
	for _, x := range w {
		t += x
	}
	if t <= 0 {
		return 0
	}
	n := r.Intn(t)
	for i, x := range w {
		if n < x {
			return i
		}
		n -= x
	}
	return len(w) - 1
}

func (r *Rand) Perm(n int) []int {
	p := make([]int, n)
	for i := range p {
		p[i] = i
	}
	for i := n - 1; i > 0; i-- {
		j := r.Intn(i + 1)
		p[i], p[j] = p[j], p[i]
	}
	return p
}

// SeedFor mixes a base seed with a run index: the seed of run i of a batch.
func SeedFor(base uint64, i uint64) uint64 {
	r := NewRand(base)
	r.s += i * 0xA0761D6478BD642F
	return r.Uint64()
}
