package core

import (
	"bufio"
	"encoding/json"
	"fmt"
	"os"
	"os/exec"
	"path/filepath"
	"sort"
	"strconv"
	"strings"
	"time"
)

// Driver is one property's check: a generator of cases (seeded), a
// deterministic executor with its oracle, and the words for the evidence file.
type Driver interface {
	ID() string
	Level() string // exploration | fault_enumeration
	Generate(r *Rand, tier string, idx uint64) *Case
	Execute(c *Case) *Result
	Rule() string
	Components() map[string]string // component -> "real" | "stub" | ...
	Assumptions() []string
}

var Drivers = map[string]Driver{}

func Register(d Driver) { Drivers[d.ID()] = d }

// VerifDir is /verif (where known_findings.json, replays/, evidence/ live).
func VerifDir() string {
	if d := os.Getenv("VERIF_DIR"); d != "" {
		return d
	}
	return "/verif"
}

// ---------------------------------------------------------------------------
// known findings

type Finding struct {
	ID       string   `json:"id"`
	Status   string   `json:"status"` // open | fixed
	Property string   `json:"property"`
	Class    string   `json:"class"`
	Requires []string `json:"requires,omitempty"`
	What     string   `json:"what"`
	Replay   string   `json:"replay,omitempty"`
	Commit   string   `json:"commit,omitempty"`
	Line     string   `json:"line,omitempty"` // "fixed: property=<id> <commit> <what failed>"
}

type FindingsFile struct {
	Findings []Finding `json:"findings"`
}

func LoadFindings() *FindingsFile {
	ff := &FindingsFile{}
	b, err := os.ReadFile(filepath.Join(VerifDir(), "known_findings.json"))
	if err != nil {
		return ff
	}
	if err := json.Unmarshal(b, ff); err != nil {
		fmt.Fprintf(os.Stderr, "harness: cannot parse known_findings.json: %v\n", err)
		os.Exit(2)
	}
	return ff
}

func (f *Finding) Matches(v *Violation) bool {
	if f.Property != v.Property || f.Class != v.Class {
		return false
	}
	for _, r := range f.Requires {
		if !v.HasFeature(r) {
			return false
		}
	}
	return true
}

// ---------------------------------------------------------------------------
// minimisation

func sameViolation(res *Result, prop, class string) *Violation {
	for i := range res.Violations {
		if res.Violations[i].Property == prop && res.Violations[i].Class == class {
			return &res.Violations[i]
		}
	}
	return nil
}

// SafeExecute runs the driver and turns a panic of the harness itself into a
// harness error (exit 2), never into a violation.
// BeforeCase, if set, resets process-wide state of the system under test
// before every case (so that a case behaves the same whether it is the
// hundredth in a worker or the first in a fresh replay process) and returns
// the function that restores it.
var BeforeCase func() func()

func SafeExecute(d Driver, c *Case) (res *Result) {
	if BeforeCase != nil {
		defer BeforeCase()()
	}
	defer func() {
		if r := recover(); r != nil {
			res = &Result{HarnessErr: fmt.Sprintf("harness panic: %v", r)}
		}
	}()
	return d.Execute(c)
}

// Minimise shrinks the case while the same violation class persists: ddmin
// over the operation list, then faults one by one, then the schedule.
func Minimise(d Driver, c *Case, prop, class string, budget time.Duration, keep func(*Violation) bool) *Case {
	deadline := time.Now().Add(budget)
	best := c.Clone()
	try := func(cand *Case) bool {
		if time.Now().After(deadline) {
			return false
		}
		res := SafeExecute(d, cand)
		if res.HarnessErr != "" {
			return false
		}
		v := sameViolation(res, prop, class)
		return v != nil && (keep == nil || keep(v))
	}
	// ddmin on ops
	n := 2
	for len(best.Ops) >= 2 && time.Now().Before(deadline) {
		chunk := (len(best.Ops) + n - 1) / n
		reduced := false
		for start := 0; start < len(best.Ops); start += chunk {
			end := start + chunk
			if end > len(best.Ops) {
				end = len(best.Ops)
			}
			cand := best.Clone()
			cand.Ops = append(append([]worldOp{}, best.Ops[:start]...), best.Ops[end:]...)
			if len(cand.Ops) == 0 {
				continue
			}
			if try(cand) {
				best = cand
				if n > 2 {
					n--
				}
				reduced = true
				break
			}
		}
		if !reduced {
			if chunk <= 1 {
				break
			}
			n *= 2
			if n > len(best.Ops) {
				n = len(best.Ops)
			}
		}
	}
	// faults one by one
	for i := 0; i < len(best.Faults) && len(best.Faults) > 1 && time.Now().Before(deadline); {
		// (the last fault is kept: for sweeping drivers an empty fault list
		// means "sweep every call", which is a bigger case, not a smaller one)
		cand := best.Clone()
		cand.Faults = append(cand.Faults[:i], cand.Faults[i+1:]...)
		if try(cand) {
			best = cand
		} else {
			i++
		}
	}
	// schedule: drop picks from the end, then try removing single picks
	for len(best.Schedule) > 0 && time.Now().Before(deadline) {
		cand := best.Clone()
		cand.Schedule = cand.Schedule[:len(cand.Schedule)-1]
		if try(cand) {
			best = cand
		} else {
			break
		}
	}
	return best
}

// ---------------------------------------------------------------------------
// worker

type workerSummary struct {
	Evaluations int               `json:"evaluations"`
	Keys        []string          `json:"keys"`
	NTKeys      []string          `json:"ntKeys"`
	Stats       map[string]int    `json:"stats"`
	Samples     []any             `json:"samples"`
	Violations  []violationRecord `json:"violations"`
	Known       map[string]int    `json:"known"`
	HarnessErrs []string          `json:"harnessErrs"`
	Steps       int               `json:"steps"`
	SimTime     int64             `json:"simTime"`
	WallS       float64           `json:"wallS"`
	Seeds       []uint64          `json:"seeds"`
}

type violationRecord struct {
	V      Violation `json:"v"`
	Replay string    `json:"replay"`
}

// RunWorker executes runs idx = w, w+nw, w+2nw, ... until maxRuns or deadline.
func RunWorker(d Driver, tier string, seed uint64, w, nw int, maxRuns uint64, deadline time.Time, findings *FindingsFile, active map[string]bool) *workerSummary {
	start := time.Now()
	sum := &workerSummary{Stats: map[string]int{}, Known: map[string]int{}}
	keys := map[string]bool{}
	nt := map[string]bool{}
	reported := map[string]bool{}
	for idx := uint64(w); idx < maxRuns; idx += uint64(nw) {
		if time.Now().After(deadline) {
			break
		}
		rs := SeedFor(seed, idx)
		c := d.Generate(NewRand(rs), tier, idx)
		if c == nil {
			continue
		}
		c.Seed = rs
		res := SafeExecute(d, c)
		sum.Evaluations++
		if len(sum.Seeds) < 4 {
			sum.Seeds = append(sum.Seeds, rs)
		}
		sum.Steps += res.Steps
		sum.SimTime += res.SimTime
		for k, v := range res.Stats {
			sum.Stats[k] += v
		}
		if res.HarnessErr != "" {
			if len(sum.HarnessErrs) < 5 {
				sum.HarnessErrs = append(sum.HarnessErrs, fmt.Sprintf("seed %d: %s", rs, res.HarnessErr))
			}
			sum.Stats["harness_errors"]++
			continue
		}
		if res.StateKey != "" {
			keys[res.StateKey] = true
			if res.Nontrivial {
				nt[res.StateKey] = true
			}
		}
		if len(sum.Samples) < 2 && res.Sample != nil && res.Nontrivial {
			sum.Samples = append(sum.Samples, res.Sample)
		}
		for i := range res.Violations {
			v := &res.Violations[i]
			matched := false
			for _, f := range findings.Findings {
				if f.Status == "open" && active[f.ID] && f.Matches(v) {
					sum.Known[f.ID]++
					matched = true
					break
				}
			}
			if matched {
				continue
			}
			sig := v.Property + "/" + v.Class + "/" + strings.Join(v.Features, ",")
			if reported[sig] {
				sum.Stats["violations_deduplicated"]++
				continue
			}
			reported[sig] = true
			if len(sum.Violations) >= 4 {
				sum.Stats["violations_not_minimised_over_cap"]++
				continue
			}
			base := c
			if (len(v.Faults) > 0 && len(c.Faults) == 0) || (len(v.Schedule) > 0 && len(c.Schedule) == 0) {
				base = c.Clone()
				if len(c.Faults) == 0 {
					base.Faults = v.Faults
				}
				if len(c.Schedule) == 0 {
					base.Schedule = v.Schedule
				}
				if sameViolation(d.Execute(base), v.Property, v.Class) == nil {
					base = c
				}
			}
			// a shrunk case must not morph into a violation that a known
			// finding covers when the original is not covered
			notKnown := func(x *Violation) bool {
				for _, f := range findings.Findings {
					if f.Status == "open" && active[f.ID] && f.Matches(x) {
						return false
					}
				}
				return true
			}
			min := Minimise(d, base, v.Property, v.Class, 20*time.Second, notKnown)
			mres := d.Execute(min)
			mv := sameViolation(mres, v.Property, v.Class)
			for i := range mres.Violations {
				x := &mres.Violations[i]
				if x.Property == v.Property && x.Class == v.Class && notKnown(x) {
					mv = x
					break
				}
			}
			minimised := true
			if mv == nil { // should not happen; fall back to the original
				min, mres, mv, minimised = c, res, v, false
				sum.Stats["minimisation_lost_violation"]++
			}
			// the minimised violation may turn out to be a known finding
			knownAfterMin := false
			for _, f := range findings.Findings {
				if f.Status == "open" && active[f.ID] && f.Matches(mv) {
					sum.Known[f.ID]++
					knownAfterMin = true
					break
				}
			}
			if knownAfterMin {
				if os.Getenv("VERIF_DEBUG") != "" {
					fmt.Fprintf(os.Stderr, "debug: seed %d: original violation %v (%s) became known after minimisation %v\n", rs, v.Features, v.Detail, mv.Features)
				}
				continue
			}
			rp := &Replay{Property: mv.Property, Class: mv.Class, Detail: mv.Detail, Features: mv.Features, Digest: mres.Digest, Minimised: minimised, Case: min, Version: EngineVersion}
			path, err := WriteReplay(filepath.Join(VerifDir(), "replays"), rp)
			if err != nil {
				sum.HarnessErrs = append(sum.HarnessErrs, "cannot write replay: "+err.Error())
				continue
			}
			sum.Violations = append(sum.Violations, violationRecord{V: *mv, Replay: path})
		}
	}
	for k := range keys {
		sum.Keys = append(sum.Keys, k)
	}
	for k := range nt {
		sum.NTKeys = append(sum.NTKeys, k)
	}
	sort.Strings(sum.Keys)
	sort.Strings(sum.NTKeys)
	sum.WallS = time.Since(start).Seconds()
	return sum
}

// ---------------------------------------------------------------------------
// parent

type TierCfg struct {
	Runs    uint64
	BudgetS int
}

// Check runs a property check end to end and returns the process exit code.
func Check(d Driver, tier string, seed uint64, workers int, cfg TierCfg) int {
	start := time.Now()
	prop := d.ID()
	findings := LoadFindings()
	exit := 0
	violations := 0

	// 1. committed replays of known findings: open ones must still reproduce
	// (then they are announced and suppressed), fixed ones must stay fixed.
	active := map[string]bool{}
	knownLines := []string{}
	// the replays run in fresh processes, several at a time (real-git cases are slow)
	selfExe, _ := os.Executable()
	type fres struct {
		res *Result
		err string
	}
	mine := []Finding{}
	for _, f := range findings.Findings {
		if f.Property == prop && f.Replay != "" {
			mine = append(mine, f)
		}
	}
	fresults := make([]fres, len(mine))
	sem := make(chan struct{}, 8)
	done := make(chan int, len(mine))
	for i := range mine {
		go func(i int) {
			sem <- struct{}{}
			defer func() { <-sem; done <- i }()
			path := filepath.Join(VerifDir(), mine[i].Replay)
			if _, err := ReadReplay(path); err != nil {
				fresults[i].err = fmt.Sprintf("cannot read finding replay %s: %v", mine[i].Replay, err)
				return
			}
			out, err := exec.Command(selfExe, "exec", path).Output()
			if err != nil {
				fresults[i].err = fmt.Sprintf("finding replay %s: %v", mine[i].Replay, err)
				return
			}
			r := &Result{}
			if err := json.Unmarshal(out, r); err != nil {
				fresults[i].err = fmt.Sprintf("finding replay %s: unreadable result: %v", mine[i].Replay, err)
				return
			}
			fresults[i].res = r
		}(i)
	}
	for range mine {
		<-done
	}
	for i, f := range mine {
		if fresults[i].err != "" {
			fmt.Fprintf(os.Stderr, "harness: %s\n", fresults[i].err)
			return 2
		}
		res := fresults[i].res
		if res.HarnessErr != "" {
			fmt.Fprintf(os.Stderr, "harness: finding replay %s: %s\n", f.Replay, res.HarnessErr)
			return 2
		}
		v := sameViolation(res, f.Property, f.Class)
		switch f.Status {
		case "open":
			if v != nil && f.Matches(v) {
				active[f.ID] = true
				line := fmt.Sprintf("KNOWN-FINDING: property=%s %s [%s]", prop, f.What, f.ID)
				fmt.Println(line)
				knownLines = append(knownLines, line)
			} else {
				fmt.Printf("note: known finding %s no longer reproduces from its replay; its predicate is not applied\n", f.ID)
			}
		case "fixed":
			if v != nil {
				fmt.Printf("VIOLATION property=%s replay=%s\n", prop, filepath.Join(VerifDir(), f.Replay))
				fmt.Printf("  (regression of %s: %s)\n", f.ID, v.Detail)
				violations++
				exit = 1
			}
		}
	}

	// stale replays of this property from earlier runs are removed
	if old, _ := filepath.Glob(filepath.Join(VerifDir(), "replays", prop+"-*.json")); len(old) > 0 {
		for _, f := range old {
			_ = os.Remove(f)
		}
	}

	// 2. seeded exploration across worker processes
	deadline := time.Now().Add(time.Duration(cfg.BudgetS) * time.Second) // the budget is the exploration's; replaying findings is not charged to it
	self := selfExe
	activeIDs := []string{}
	for id := range active {
		activeIDs = append(activeIDs, id)
	}
	sort.Strings(activeIDs)
	type wres struct {
		sum *workerSummary
		err error
		out string
	}
	ch := make(chan wres, workers)
	for w := 0; w < workers; w++ {
		go func(w int) {
			cmd := exec.Command(self, "worker", prop,
				"--tier", tier, "--seed", strconv.FormatUint(seed, 10),
				"--w", strconv.Itoa(w), "--nw", strconv.Itoa(workers),
				"--runs", strconv.FormatUint(cfg.Runs, 10),
				"--deadline", strconv.FormatInt(deadline.Unix(), 10),
				"--active", strings.Join(activeIDs, ","))
			cmd.Env = append(os.Environ(), "GOMAXPROCS=2")
			cmd.Stderr = os.Stderr
			out, err := cmd.Output()
			r := wres{err: err, out: string(out)}
			if err == nil {
				// summary is the last line
				sc := bufio.NewScanner(strings.NewReader(string(out)))
				sc.Buffer(make([]byte, 1<<20), 1<<30)
				last := ""
				for sc.Scan() {
					if strings.HasPrefix(sc.Text(), "{") {
						last = sc.Text()
					}
				}
				s := &workerSummary{}
				if e := json.Unmarshal([]byte(last), s); e != nil {
					r.err = fmt.Errorf("cannot parse worker summary: %v", e)
				} else {
					r.sum = s
				}
			}
			ch <- r
		}(w)
	}
	total := &workerSummary{Stats: map[string]int{}, Known: map[string]int{}}
	keys := map[string]bool{}
	nt := map[string]bool{}
	harnessTrouble := false
	for w := 0; w < workers; w++ {
		r := <-ch
		if r.err != nil {
			fmt.Fprintf(os.Stderr, "harness: worker failed: %v\n%s\n", r.err, tail(r.out, 2000))
			harnessTrouble = true
			continue
		}
		s := r.sum
		total.Evaluations += s.Evaluations
		total.Steps += s.Steps
		total.SimTime += s.SimTime
		for k, v := range s.Stats {
			total.Stats[k] += v
		}
		for k, v := range s.Known {
			total.Known[k] += v
		}
		for _, k := range s.Keys {
			keys[k] = true
		}
		for _, k := range s.NTKeys {
			nt[k] = true
		}
		if len(total.Samples) < 3 {
			total.Samples = append(total.Samples, s.Samples...)
		}
		total.Seeds = append(total.Seeds, s.Seeds...)
		total.HarnessErrs = append(total.HarnessErrs, s.HarnessErrs...)
		total.Violations = append(total.Violations, s.Violations...)
	}
	if harnessTrouble {
		return 2
	}
	if len(total.HarnessErrs) > 0 {
		for i, e := range total.HarnessErrs {
			if i >= 5 {
				fmt.Fprintf(os.Stderr, "harness error: ... and %d more\n", len(total.HarnessErrs)-i)
				break
			}
			fmt.Fprintf(os.Stderr, "harness error: %s\n", e)
		}
		return 2
	}

	// 3. every reported violation must replay exactly in a fresh process
	seenSig := map[string]bool{}
	for _, vr := range total.Violations {
		sig := vr.V.Property + "/" + vr.V.Class + "/" + strings.Join(vr.V.Features, ",")
		if seenSig[sig] {
			continue
		}
		seenSig[sig] = true
		// Exact reproduction is the rule. If the system under test is itself nondeterministic
		// (e.g. its verdict depends on Go's map iteration order) the same violation class may
		// come back with another digest, or only in some executions: a violation seen in a
		// worker AND again in a fresh process is reported, with a note; one that never comes
		// back in 5 fresh processes is harness trouble.
		exact, sameClass, attempts := false, 0, 0
		var out []byte
		var err error
		for attempts = 1; attempts <= 5; attempts++ {
			out, err = exec.Command(self, "replay", vr.Replay).CombinedOutput()
			first := strings.SplitN(string(out), "\n", 2)[0]
			if strings.HasPrefix(first, "REPRODUCED") {
				exact = true
				break
			}
			if strings.HasPrefix(first, "DIVERGED") {
				sameClass++
				if sameClass >= 2 {
					break
				}
			}
		}
		if !exact && sameClass == 0 {
			fmt.Fprintf(os.Stderr, "harness: replay %s did not reproduce in 5 fresh processes (exit %v):\n%s\n", vr.Replay, err, tail(string(out), 1500))
			return 2
		}
		fmt.Printf("VIOLATION property=%s replay=%s\n", vr.V.Property, vr.Replay)
		fmt.Printf("  class=%s features=%v\n  %s\n", vr.V.Class, vr.V.Features, vr.V.Detail)
		if !exact {
			fmt.Printf("  note: the same violation class reproduced in a fresh process but with a different execution digest (%d of %d replays): the behaviour of the code under test is not a function of the case (map iteration order?)\n", sameClass, attempts-1+boolToInt(attempts <= 5))
		}
		violations++
		exit = 1
	}

	// 4. evidence
	wall := time.Since(start).Seconds()
	if len(total.Samples) == 0 {
		total.Samples = []any{"no non-trivial sample recorded"}
	}
	perHour := 0.0
	if wall > 0 {
		perHour = float64(total.Evaluations) / wall * 3600
	}
	faultFired := map[string]int{}
	probes := map[string]int{}
	other := map[string]int{}
	for k, v := range total.Stats {
		switch {
		case strings.HasPrefix(k, "fault:"):
			faultFired[strings.TrimPrefix(k, "fault:")] = v
		case strings.HasPrefix(k, "probe:"):
			probes[strings.TrimPrefix(k, "probe:")] = v
		default:
			other[k] = v
		}
	}
	ev := map[string]any{
		"property_id": prop,
		"tier":        tier,
		"seed":        int64(seed % (1 << 62)),
		"level":       d.Level(),
		"coverage": map[string]any{
			"evaluations":           total.Evaluations,
			"distinct_nontrivial":   len(nt),
			"distinct_states":       len(keys),
			"rule":                  d.Rule(),
			"samples":               total.Samples,
			"runs_per_hour":         int(perHour),
			"workers":               workers,
			"steps":                 total.Steps,
			"simulated_time_s":      total.SimTime,
			"fault_kinds_fired":     faultFired,
			"probes":                probes,
			"counters":              other,
			"components":            d.Components(),
			"known_findings_hit":    total.Known,
			"known_findings_active": activeIDs,
			"run_seeds_sample":      firstN(total.Seeds, 8),
		},
		"assumptions": d.Assumptions(),
		"wall_s":      wall,
		"violations":  violations,
	}
	b, _ := json.MarshalIndent(ev, "", " ")
	evDir := filepath.Join(VerifDir(), "evidence")
	_ = os.MkdirAll(evDir, 0o755)
	if err := os.WriteFile(filepath.Join(evDir, prop+".json"), b, 0o644); err != nil {
		fmt.Fprintf(os.Stderr, "harness: cannot write evidence: %v\n", err)
		return 2
	}
	zero := []string{}
	for k, v := range probes {
		if v == 0 {
			zero = append(zero, k)
		}
	}
	sort.Strings(zero)
	fmt.Printf("%s %s: %d runs (%d distinct non-trivial of %d distinct states) in %.1fs on %d workers, %d violations, known=%v\n", prop, tier, total.Evaluations, len(nt), len(keys), wall, workers, violations, total.Known)
	if len(zero) > 0 {
		fmt.Printf("warning: probes never hit: %v\n", zero)
	}
	if len(nt) < 2 {
		fmt.Fprintf(os.Stderr, "harness: fewer than 2 distinct non-trivial cases explored\n")
		return 2
	}
	return exit
}

func firstN(s []uint64, n int) []uint64 {
	if len(s) > n {
		return s[:n]
	}
	return s
}

func tail(s string, n int) string {
	if len(s) > n {
		return s[len(s)-n:]
	}
	return s
}

func boolToInt(b bool) int {
	if b {
		return 1
	}
	return 0
}

// TierTable holds per-property tier budgets (filled by the props package).
var TierTable = map[string]map[string]TierCfg{}

// ReplayFile re-executes a replay file in this (fresh) process. Exit 1 and a
// REPRODUCED line if the recorded violation class and digest reproduce.
func ReplayFile(path string) int {
	rp, err := ReadReplay(path)
	if err != nil {
		fmt.Fprintf(os.Stderr, "harness: %v\n", err)
		return 2
	}
	d, ok := Drivers[rp.Property]
	if !ok {
		fmt.Fprintf(os.Stderr, "harness: unknown property %s\n", rp.Property)
		return 2
	}
	res := SafeExecute(d, rp.Case)
	if res.HarnessErr != "" {
		fmt.Fprintf(os.Stderr, "harness: %s\n", res.HarnessErr)
		return 2
	}
	v := sameViolation(res, rp.Property, rp.Class)
	if v == nil {
		fmt.Printf("NOT-REPRODUCED property=%s class=%s (violations now: %d)\n", rp.Property, rp.Class, len(res.Violations))
		return 0
	}
	if res.Digest != rp.Digest {
		fmt.Printf("DIVERGED property=%s class=%s digest %s != recorded %s\n", rp.Property, rp.Class, res.Digest, rp.Digest)
		return 3
	}
	fmt.Printf("REPRODUCED property=%s class=%s digest=%s\n  %s\n", rp.Property, rp.Class, res.Digest, v.Detail)
	fmt.Printf("VIOLATION property=%s replay=%s\n", rp.Property, path)
	return 1
}
