package world

import (
	"context"
	"fmt"
	"sort"

	"github.com/gittuf/gittuf/internal/policy"
	"github.com/gittuf/gittuf/internal/signerverifier/dsse"
	sslibdsse "github.com/gittuf/gittuf/internal/third_party/go-securesystemslib/dsse"
	"github.com/gittuf/gittuf/internal/tuf"
	tufv01 "github.com/gittuf/gittuf/internal/tuf/v01"
	tufv02 "github.com/gittuf/gittuf/internal/tuf/v02"
)

const fixedExpiry = "2030-01-01T00:00:00Z"

// PrincipalSpec is a principal as the simulator knows it: which keys it owns.
type PrincipalSpec struct {
	ID         string            `json:"id"`
	Keys       []int             `json:"keys"`
	Person     bool              `json:"person,omitempty"`
	Identities map[string]string `json:"identities,omitempty"` // app name -> identity
}

type RuleSpec struct {
	Name        string   `json:"name"`
	Patterns    []string `json:"patterns"`
	Principals  []string `json:"principals"`
	Threshold   int      `json:"threshold"`
	Terminating bool     `json:"terminating,omitempty"`
}

type RuleFileSpec struct {
	Version    int             `json:"version"`
	Principals []PrincipalSpec `json:"principals"`
	Rules      []RuleSpec      `json:"rules"`
	// Signers are the key indexes that sign this rule file's envelope.
	Signers []int `json:"signers"`
}

type GlobalRuleSpec struct {
	Name      string   `json:"name"`
	Kind      string   `json:"kind"` // "threshold" | "block-force-pushes"
	Patterns  []string `json:"patterns"`
	Threshold int      `json:"threshold,omitempty"`
}

type AppSpec struct {
	Name      string `json:"name"`
	Keys      []int  `json:"keys"`
	Trusted   bool   `json:"trusted"`
	Threshold int    `json:"threshold"`
}

// PolicySpec is a whole policy state as data. It is what policy operations
// carry in replay files and what the reference model reads: ground truth comes
// from here, never from parsing what gittuf stored.
type PolicySpec struct {
	RootVersion      int              `json:"rootVersion"`
	RootKeys         []int            `json:"rootKeys"`
	RootThreshold    int              `json:"rootThreshold"`
	TargetsKeys      []int            `json:"targetsKeys"`
	TargetsThreshold int              `json:"targetsThreshold"`
	GlobalRules      []GlobalRuleSpec `json:"globalRules,omitempty"`
	Apps             []AppSpec        `json:"apps,omitempty"`
	// RootSigners are the key indexes that sign the root envelope.
	RootSigners []int `json:"rootSigners"`
	// Multi-repository ("network") declarations of the root.
	Controller      bool      `json:"controller,omitempty"`      // this repository is a controller
	NetworkRepos    []RepoRef `json:"networkRepos,omitempty"`    // repositories this controller governs
	ControllerRepos []RepoRef `json:"controllerRepos,omitempty"` // controllers this repository follows
	// Files: "targets" and delegated rule files by name. nil Targets = no rule file yet.
	Files map[string]*RuleFileSpec `json:"files,omitempty"`
}

// RepoRef names another repository in a root's network declarations.
type RepoRef struct {
	Name     string `json:"name"`
	Location string `json:"location"`
	RootKeys []int  `json:"rootKeys"`
}

func (p *PolicySpec) Clone() *PolicySpec {
	n := *p
	n.RootKeys = append([]int(nil), p.RootKeys...)
	n.TargetsKeys = append([]int(nil), p.TargetsKeys...)
	n.RootSigners = append([]int(nil), p.RootSigners...)
	n.GlobalRules = append([]GlobalRuleSpec(nil), p.GlobalRules...)
	n.Apps = append([]AppSpec(nil), p.Apps...)
	n.NetworkRepos = append([]RepoRef(nil), p.NetworkRepos...)
	n.ControllerRepos = append([]RepoRef(nil), p.ControllerRepos...)
	n.Files = map[string]*RuleFileSpec{}
	for k, f := range p.Files {
		nf := *f
		nf.Principals = append([]PrincipalSpec(nil), f.Principals...)
		nf.Rules = append([]RuleSpec(nil), f.Rules...)
		nf.Signers = append([]int(nil), f.Signers...)
		n.Files[k] = &nf
	}
	return &n
}

func principalFor(ps PrincipalSpec) tuf.Principal {
	if ps.Person {
		keys := make([]*Key, 0, len(ps.Keys))
		for _, k := range ps.Keys {
			keys = append(keys, GetKey(k))
		}
		return Person(ps.ID, keys, ps.Identities)
	}
	return GetKey(ps.Keys[0]).Principal()
}

// KeyPrincipal is the PrincipalSpec of a bare key used as principal: its id is
// the key id.
func KeyPrincipal(k int) PrincipalSpec {
	return PrincipalSpec{ID: GetKey(k).ID, Keys: []int{k}}
}

func signEnvelope(v any, signers []int) (*sslibdsse.Envelope, error) {
	env, err := dsse.CreateEnvelope(v)
	if err != nil {
		return nil, err
	}
	for _, s := range signers {
		env, err = dsse.SignEnvelope(context.Background(), env, GetKey(s).DSSE())
		if err != nil {
			return nil, err
		}
	}
	return env, nil
}

// BuildRoot renders the root metadata of a spec.
func (p *PolicySpec) BuildRoot() (*tufv02.RootMetadata, error) {
	root := tufv02.NewRootMetadata()
	root.SetExpires(fixedExpiry)
	for _, k := range p.RootKeys {
		if err := root.AddRootPrincipal(GetKey(k).Principal()); err != nil {
			return nil, err
		}
	}
	if p.RootThreshold > 1 {
		if err := root.UpdateRootThreshold(p.RootThreshold); err != nil {
			return nil, err
		}
	}
	for _, k := range p.TargetsKeys {
		if err := root.AddPrimaryRuleFilePrincipal(GetKey(k).Principal()); err != nil {
			return nil, err
		}
	}
	if p.TargetsThreshold > 1 {
		if err := root.UpdatePrimaryRuleFileThreshold(p.TargetsThreshold); err != nil {
			return nil, err
		}
	}
	for _, g := range p.GlobalRules {
		var gr tuf.GlobalRule
		switch g.Kind {
		case "threshold":
			gr = tufv01.NewGlobalRuleThreshold(g.Name, g.Patterns, g.Threshold)
		case "block-force-pushes":
			r, err := tufv01.NewGlobalRuleBlockForcePushes(g.Name, g.Patterns)
			if err != nil {
				return nil, err
			}
			gr = r
		default:
			return nil, fmt.Errorf("unknown global rule kind %q", g.Kind)
		}
		if err := root.AddGlobalRule(gr); err != nil {
			return nil, err
		}
	}
	for _, a := range p.Apps {
		for _, k := range a.Keys {
			if err := root.AddGitHubAppPrincipal(a.Name, GetKey(k).Principal()); err != nil {
				return nil, err
			}
		}
		if a.Trusted {
			root.EnableGitHubAppApprovals(a.Name)
		} else {
			root.DisableGitHubAppApprovals(a.Name)
		}
	}
	if p.Controller {
		if err := root.EnableController(); err != nil {
			return nil, err
		}
	}
	refPrincipals := func(r RepoRef) []tuf.Principal {
		out := []tuf.Principal{}
		for _, k := range r.RootKeys {
			out = append(out, GetKey(k).Principal())
		}
		return out
	}
	for _, r := range p.NetworkRepos {
		if err := root.AddNetworkRepository(r.Name, r.Location, refPrincipals(r)); err != nil {
			return nil, err
		}
	}
	for _, r := range p.ControllerRepos {
		if err := root.AddControllerRepository(r.Name, r.Location, refPrincipals(r)); err != nil {
			return nil, err
		}
	}
	root.Version = uint64(p.RootVersion)
	return root, nil
}

// BuildRuleFile renders one rule file.
func (f *RuleFileSpec) Build() (*tufv02.TargetsMetadata, error) {
	t := tufv02.NewTargetsMetadata()
	t.SetExpires(fixedExpiry)
	for _, ps := range f.Principals {
		if err := t.AddPrincipal(principalFor(ps)); err != nil {
			return nil, err
		}
	}
	for _, r := range f.Rules {
		if err := t.AddRule(r.Name, r.Principals, r.Patterns, r.Threshold); err != nil {
			return nil, fmt.Errorf("rule %s: %w", r.Name, err)
		}
		if r.Terminating {
			for _, d := range t.Delegations.Roles {
				if d.Name == r.Name {
					d.Terminating = true
				}
			}
		}
	}
	t.Version = uint64(f.Version)
	return t, nil
}

// Build renders and signs the whole state.
func (p *PolicySpec) Build() (*policy.StateMetadata, error) {
	root, err := p.BuildRoot()
	if err != nil {
		return nil, err
	}
	rootEnv, err := signEnvelope(root, p.RootSigners)
	if err != nil {
		return nil, err
	}
	md := &policy.StateMetadata{RootEnvelope: rootEnv}
	names := make([]string, 0, len(p.Files))
	for n := range p.Files {
		names = append(names, n)
	}
	sort.Strings(names)
	for _, name := range names {
		f := p.Files[name]
		t, err := f.Build()
		if err != nil {
			return nil, err
		}
		env, err := signEnvelope(t, f.Signers)
		if err != nil {
			return nil, err
		}
		if name == policy.TargetsRoleName {
			md.TargetsEnvelope = env
		} else {
			if md.DelegationEnvelopes == nil {
				md.DelegationEnvelopes = map[string]*sslibdsse.Envelope{}
			}
			md.DelegationEnvelopes[name] = env
		}
	}
	return md, nil
}
