package world

import (
	"context"
	"encoding/base64"
	"encoding/json"
	"errors"
	"fmt"
	"strings"

	"github.com/gittuf/gittuf/internal/attestations"
	"github.com/gittuf/gittuf/internal/attestations/authorizations"
	"github.com/gittuf/gittuf/internal/cache"
	"github.com/gittuf/gittuf/internal/policy"
	"github.com/gittuf/gittuf/internal/signerverifier/dsse"
	sslibdsse "github.com/gittuf/gittuf/internal/third_party/go-securesystemslib/dsse"
	"github.com/gittuf/gittuf/pkg/gitstore"
	"github.com/gittuf/gittuf/pkg/rsl"
	"github.com/gittuf/gittuf/verifsim/sched"
	"github.com/gittuf/gittuf/verifsim/simstore"
)

// Verdict is what a verification call returned, by class.
type Verdict struct {
	Class string // accept | reject | notfound | integrity | injected | other
	Tip   string
	Err   string
}

func (v Verdict) String() string { return v.Class + ":" + short(v.Tip) }

// Classify maps an error to its class. Errors are compared by class, never by
// text.
func Classify(err error) string {
	switch {
	case err == nil:
		return "accept"
	case errors.Is(err, sched.ErrInjected):
		return "injected"
	case errors.Is(err, policy.ErrVerificationFailed),
		errors.Is(err, policy.ErrInvalidEntryNotSkipped),
		errors.Is(err, policy.ErrLastGoodEntryIsSkipped),
		errors.Is(err, policy.ErrVerifierConditionsUnmet),
		errors.Is(err, policy.ErrMetadataRollbackDetected),
		errors.Is(err, policy.ErrPolicyNotFound),
		errors.Is(err, policy.ErrInvalidPolicy),
		errors.Is(err, policy.ErrDanglingDelegationMetadata),
		errors.Is(err, policy.ErrInvalidVerifier),
		errors.Is(err, policy.ErrNoVerifiers),
		errors.Is(err, policy.ErrMetadataNotFound):
		return "reject"
	case errors.Is(err, rsl.ErrRSLBranchDetected), errors.Is(err, rsl.ErrInvalidRSLEntry):
		return "integrity"
	case errors.Is(err, rsl.ErrRSLEntryNotFound):
		return "notfound"
	}
	s := err.Error()
	if strings.Contains(s, "verifying tag") || strings.Contains(s, "tag reference set to unexpected target") {
		return "reject"
	}
	return "other"
}

// resolveCommit resolves "op:N" / "entry:N" / "" (tip of ref) / "root".
func (w *World) resolveCommit(spec, ref string) (string, bool) {
	switch {
	case spec == "root":
		return "", true
	case spec == "":
		if ref == "" {
			return "", true
		}
		tip, ok := w.St.GetRef(ref)
		if !ok {
			return "", true
		}
		return tip, true
	case strings.HasPrefix(spec, "op:"):
		var n int
		fmt.Sscanf(spec, "op:%d", &n)
		c, ok := w.Commits[n]
		if !ok {
			return "", false
		}
		return c.ID, true
	case strings.HasPrefix(spec, "entry:"):
		var n int
		fmt.Sscanf(spec, "entry:%d", &n)
		e, ok := w.ByOp[n]
		if !ok {
			return "", false
		}
		return e.Target, true
	}
	return "", false
}

// ErrSkipped marks an operation whose references were removed by minimisation.
var ErrSkipped = errors.New("operation skipped: it refers to an operation that is not in this case")

func keyOrActor(k int, a *Actor) int {
	if k == -2 {
		return a.Key
	}
	return k
}

// Exec executes one operation by its actor through the intercepted handle and
// updates ground truth. The returned outcome's Err is the operation's error.
func (w *World) Exec(op *Op) sched.Outcome {
	if op.Actor < 0 || op.Actor >= len(w.Actors) {
		return sched.Outcome{Err: ErrSkipped}
	}
	a := w.Actors[op.Actor]
	w.pendingAtt = nil
	w.pendingTag = nil
	var signer = -1
	var pol *PolicySpec
	out := a.Proc.RunOp(op.ID, func() error {
		switch op.Kind {
		case "push", "fix":
			parent, ok := w.resolveCommit(op.Base, op.Ref)
			if !ok {
				return ErrSkipped
			}
			parents := []string{}
			if parent != "" {
				parents = append(parents, parent)
			}
			if op.Merge != "" {
				m, ok := w.resolveCommit(op.Merge, "")
				if !ok || m == "" {
					return ErrSkipped
				}
				parents = append(parents, m)
			}
			files := op.Files
			var ct *CommitTruth
			var err error
			if op.Kind == "fix" {
				src, ok := w.Commits[op.TreeOf]
				if !ok {
					// fix referring to the tree of a recorded entry
					if e, ok2 := w.ByOp[op.TreeOf]; ok2 {
						src, ok = w.CommitIdx[e.Target]
					}
					if !ok {
						return ErrSkipped
					}
				}
				ct, err = w.makeCommitWithFiles(op.ID, parents, src.Files, op.CommitKey)
			} else {
				ct, err = w.MakeCommit(op.ID, parents, files, op.CommitKey, fmt.Sprintf("commit %d", op.ID))
			}
			if err != nil {
				return err
			}
			old, had := w.St.GetRef(op.Ref)
			if !op.NoMove {
				w.St.SetRef(op.Ref, ct.ID)
			}
			signer = keyOrActor(op.EntryKey, a)
			err = RecordEntry(a.H, op.Ref, ct.ID, op.EntryKey)
			if err != nil && !op.NoMove && !a.Proc.Dead {
				if had {
					w.St.SetRef(op.Ref, old)
				} else {
					w.St.DelRef(op.Ref)
				}
			}
			return err
		case "tag": // annotated tag object for an existing commit (op.Base), signed by op.CommitKey, recorded by the actor
			target, ok := w.resolveCommit(op.Base, "")
			if !ok || target == "" {
				return ErrSkipped
			}
			var pem []byte
			if op.CommitKey >= 0 {
				pem = GetKey(op.CommitKey).PEM
			}
			name := op.Ref[strings.LastIndex(op.Ref, "/")+1:]
			tagID, err := w.St.Pool.PutTag(target, name, fmt.Sprintf("release %s\n", name), w.St.Clock.Tick(), pem)
			if err != nil {
				return err
			}
			if _, had := w.St.GetRef(op.Ref); had {
				return ErrSkipped // tags are not moved
			}
			w.St.SetRef(op.Ref, tagID)
			signer = keyOrActor(op.EntryKey, a)
			err = RecordEntry(a.H, op.Ref, tagID, op.EntryKey)
			if err != nil && !a.Proc.Dead {
				w.St.DelRef(op.Ref)
			}
			w.pendingTag = &tagTruth{commit: target, signer: op.CommitKey}
			return err
		case "commit": // `git commit`: create a commit, record nothing
			parent, ok := w.resolveCommit(op.Base, op.Ref)
			if !ok {
				return ErrSkipped
			}
			parents := []string{}
			if parent != "" {
				parents = append(parents, parent)
			}
			if op.Merge != "" {
				m, ok := w.resolveCommit(op.Merge, "")
				if !ok || m == "" {
					return ErrSkipped
				}
				parents = append(parents, m)
			}
			_, err := w.MakeCommit(op.ID, parents, op.Files, op.CommitKey, fmt.Sprintf("commit %d", op.ID))
			return err
		case "record": // record an entry for an existing commit (op.Base) without creating one
			target, ok := w.resolveCommit(op.Base, op.Ref)
			if !ok || target == "" {
				return ErrSkipped
			}
			old, had := w.St.GetRef(op.Ref)
			if !op.NoMove {
				w.St.SetRef(op.Ref, target)
			}
			signer = keyOrActor(op.EntryKey, a)
			err := RecordEntry(a.H, op.Ref, target, op.EntryKey)
			if err != nil && !op.NoMove && !a.Proc.Dead {
				if had {
					w.St.SetRef(op.Ref, old)
				} else {
					w.St.DelRef(op.Ref)
				}
			}
			return err
		case "recordNoNumber":
			target, ok := w.resolveCommit(op.Base, op.Ref)
			if !ok || target == "" {
				return ErrSkipped
			}
			return rsl.NewReferenceEntry(op.Ref, hashOf(target)).CommitWithoutNumber(a.H)
		case "annotate":
			ids := []string{}
			for _, t := range op.Targets {
				switch {
				case t > 0:
					es := w.AllByOp[t]
					if len(es) == 0 {
						return ErrSkipped
					}
					// the reference-updater entry of that op if any, else its last entry
					id := es[len(es)-1].ID
					for _, e := range es {
						if e.Kind != "annotation" {
							id = e.ID
						}
					}
					ids = append(ids, id)
				case t == -1: // a commit that is not an RSL entry
					id := ""
					for _, c := range w.Commits {
						if id == "" || c.ID < id {
							id = c.ID
						}
					}
					if id == "" {
						return ErrSkipped
					}
					ids = append(ids, id)
				case t == -2: // an id naming no object
					ids = append(ids, "00000000000000000000000000000000deadbeef")
				case t == -3: // a blob
					ids = append(ids, w.St.Pool.PutBlob([]byte("not an entry")))
				}
			}
			if len(ids) == 0 {
				return ErrSkipped
			}
			signer = keyOrActor(op.EntryKey, a)
			return RecordAnnotation(a.H, ids, op.Skip, op.Msg, op.EntryKey)
		case "annotateNoNumber":
			ids := []string{}
			for _, t := range op.Targets {
				es := w.AllByOp[t]
				if len(es) == 0 {
					return ErrSkipped
				}
				ids = append(ids, es[len(es)-1].ID)
			}
			hs := rsl.NewAnnotationEntry(nil, op.Skip, op.Msg)
			for _, id := range ids {
				hs.RSLEntryIDs = append(hs.RSLEntryIDs, hashOf(id))
			}
			return hs.CommitWithoutNumber(a.H)
		case "propagation":
			target, ok := w.resolveCommit(op.Base, op.Ref)
			if !ok || target == "" {
				return ErrSkipped
			}
			signer = keyOrActor(op.EntryKey, a)
			if op.Base != "" && !op.NoMove {
				w.St.SetRef(op.Ref, target) // the propagated commit becomes the branch tip
			}
			return RecordPropagation(a.H, op.Ref, target, op.Upstream, "1111111111111111111111111111111111111111", op.EntryKey)
		case "autoskip":
			signer = a.Key
			return rsl.SkipAllInvalidReferenceEntriesForRef(a.H, op.Ref, true)
		case "stage":
			if op.Policy == nil {
				return ErrSkipped
			}
			signer = a.Key
			err := CommitPolicy(a.H, op.Policy, true)
			if tip, ok := w.St.GetRef(policy.PolicyStagingRef); ok {
				if w.stagedSpecs == nil {
					w.stagedSpecs = map[string]*PolicySpec{}
				}
				if _, known := w.stagedSpecs[tip]; !known {
					w.stagedSpecs[tip] = op.Policy
				}
			}
			if err == nil {
				w.Staged = op.Policy
			}
			return err
		case "apply":
			signer = a.Key
			err := ApplyPolicy(a.H, true)
			if tip, ok := w.St.GetRef(policy.PolicyRef); ok {
				pol = w.stagedSpecs[tip]
				if pol == nil && err == nil {
					// staging was rebased by ReconcileStaging: same metadata, new commit
					pol = w.Staged
				}
			}
			return err
		case "byzPolicy": // adversary: a policy state written straight onto refs/gittuf/policy plus its log entry
			if op.Policy == nil {
				return ErrSkipped
			}
			md, err := op.Policy.Build()
			if err != nil {
				return fmt.Errorf("harness: cannot build policy: %w", err)
			}
			mdTree, err := md.WriteTree(a.H)
			if err != nil {
				return err
			}
			root, err := a.H.WriteTree([]gitstore.TreeEntry{{Path: "metadata", ID: mdTree, Kind: gitstore.KindSubtree}})
			if err != nil {
				return err
			}
			cid, err := a.H.Commit(root, policy.PolicyRef, "policy", false)
			if err != nil {
				return err
			}
			signer = keyOrActor(op.EntryKey, a)
			pol = op.Policy
			return RecordEntry(a.H, policy.PolicyRef, cid.String(), op.EntryKey)
		case "loadPolicy":
			_, err := policy.LoadCurrentState(context.Background(), a.H, policy.PolicyRef)
			v := Verdict{Class: Classify(err)}
			if err != nil {
				v.Err = err.Error()
			}
			if w.Verdicts == nil {
				w.Verdicts = map[int]Verdict{}
			}
			w.Verdicts[op.ID] = v
			return nil
		case "discard":
			return policy.Discard(a.H)
		case "reconcileStaging":
			signer = a.Key
			return policy.ReconcileStaging(a.H, true)
		case "approve":
			signer = a.Key
			return w.execApprove(a, op)
		case "cachePopulate":
			return cache.PopulatePersistentCache(a.H)
		case "cacheDelete":
			err := cache.DeletePersistentCache(a.H)
			if errors.Is(err, cache.ErrNoPersistentCache) {
				return nil
			}
			return err
		case "restart":
			a.Proc.Restart()
			return nil
		case "verify":
			v := w.Verify(a.H, op)
			if w.Verdicts == nil {
				w.Verdicts = map[int]Verdict{}
			}
			w.Verdicts[op.ID] = v
			return nil
		}
		return fmt.Errorf("harness: unknown op kind %q", op.Kind)
	})
	if op.Kind != "verify" && op.Kind != "restart" && op.Kind != "loadPolicy" {
		w.SyncTruth(op.ID, op.Actor, signer, pol)
	}
	w.Outcomes[op.ID] = out
	return out
}

func (w *World) makeCommitWithFiles(opID int, parents []string, files map[string]string, key int) (*CommitTruth, error) {
	// replace the whole tree: delete everything in the parent not in files
	f := map[string]string{}
	if len(parents) > 0 {
		if pt, ok := w.CommitIdx[parents[0]]; ok {
			for k := range pt.Files {
				f[k] = ""
			}
		}
	}
	for k, v := range files {
		f[k] = v
	}
	return w.MakeCommit(opID, parents, f, key, fmt.Sprintf("fix %d", opID))
}

// Verify runs one verification through the real verifier on the given storer.
func (w *World) Verify(st gitstore.Storer, op *Op) Verdict {
	ctx := context.Background()
	v := policy.NewPolicyVerifier(st)
	var (
		tip interface{ String() string }
		err error
	)
	switch op.Mode {
	case "", "full":
		h, e := v.VerifyRefFull(ctx, op.Ref)
		tip, err = h, e
	case "latest":
		h, e := v.VerifyRef(ctx, op.Ref)
		tip, err = h, e
	case "from":
		e0, ok := w.ByOp[op.FromEntry]
		if !ok {
			return Verdict{Class: "skipped"}
		}
		h, e := v.VerifyRefFromEntry(ctx, op.Ref, hashOf(e0.ID))
		tip, err = h, e
	case "mergeable":
		need, e := v.VerifyMergeable(ctx, op.Ref, op.Feature)
		vd := Verdict{Class: Classify(e)}
		if e != nil {
			vd.Err = e.Error()
		}
		if need {
			vd.Tip = "needs-signature"
		}
		return vd
	}
	vd := Verdict{Class: Classify(err)}
	if err != nil {
		vd.Err = err.Error()
	} else if tip != nil {
		vd.Tip = tip.String()
	}
	return vd
}

func (w *World) execApprove(a *Actor, op *Op) error {
	ap := op.Approve
	if ap == nil {
		return ErrSkipped
	}
	from := simstore.H("0000000000000000000000000000000000000000").String()
	if ap.FromOp != 0 {
		e, ok := w.ByOp[ap.FromOp]
		if !ok {
			return ErrSkipped
		}
		from = e.Target
	}
	toC, ok := w.Commits[ap.ToOp]
	if !ok {
		return ErrSkipped
	}
	to := toC.Tree
	if ap.Tag {
		to = toC.ID
	}
	atts, err := attestations.LoadCurrentAttestations(a.H)
	if err != nil {
		return err
	}
	if ap.Misfile || ap.Lift {
		return w.execApproveByz(a, op, from, to)
	}
	next := w.Att.Clone()
	ck := ChangeKey(ap.Ref, from, to)
	if ap.Remove {
		if err := atts.RemoveReferenceAuthorization(ap.Ref, from, to); err != nil {
			return err
		}
		delete(next.Authorizations, ck)
		w.pendingAtt = next
		return atts.Commit(a.H, "remove approval", true, true)
	}
	if ap.App != "" {
		stmt, err := attestations.NewGitHubPullRequestApprovalAttestation(ap.Ref, from, to, ap.Approvers, ap.Dismissed)
		if err != nil {
			return err
		}
		env, err := dsse.CreateEnvelope(stmt)
		if err != nil {
			return err
		}
		env, err = dsse.SignEnvelope(context.Background(), env, GetKey(ap.AppKey).DSSE())
		if err != nil {
			return err
		}
		if err := atts.SetGitHubPullRequestApprovalAttestation(a.H, env, "https://github.com", int64(op.ID), ap.App, ap.Ref, from, to); err != nil {
			return err
		}
		if next.Reviews[ck] == nil {
			next.Reviews[ck] = map[string]Review{}
		}
		next.Reviews[ck][ap.App] = Review{SignerKey: ap.AppKey, Approvers: ap.Approvers, Dismissed: ap.Dismissed}
		w.pendingAtt = next
		return atts.Commit(a.H, "add code review approval", true, true)
	}
	// merge with an existing authorization for the same change, as the real client does
	var env *sslibdsse.Envelope
	existing, err := atts.GetReferenceAuthorizationFor(a.H, ap.Ref, from, to)
	if err == nil {
		env = existing
	} else if !errors.Is(err, authorizations.ErrAuthorizationNotFound) {
		return err // as the real client does: only "not found" starts a new authorization
	} else {
		stmt, err := attestations.NewReferenceAuthorizationForCommit(ap.Ref, from, to)
		if ap.Tag {
			stmt, err = attestations.NewReferenceAuthorizationForTag(ap.Ref, from, to)
		}
		if err != nil {
			return err
		}
		env, err = dsse.CreateEnvelope(stmt)
		if err != nil {
			return err
		}
	}
	for _, s := range ap.Signers {
		env, err = dsse.SignEnvelope(context.Background(), env, GetKey(s).DSSE())
		if err != nil {
			return err
		}
	}
	if err := atts.SetReferenceAuthorization(a.H, env, ap.Ref, from, to); err != nil {
		return err
	}
	if next.Authorizations[ck] == nil {
		next.Authorizations[ck] = map[int]bool{}
	}
	for _, s := range ap.Signers {
		next.Authorizations[ck][s] = true
	}
	w.pendingAtt = next
	return atts.Commit(a.H, "add approval", true, true)
}

// JSON is a small helper for samples.
func JSON(v any) json.RawMessage {
	b, _ := json.Marshal(v)
	return b
}

// execApproveByz writes attestation blobs the setters would refuse: a validly
// signed statement for change X stored under the path of change Y (misfile),
// or an envelope for Y carrying signatures made over X's statement (lift).
// Neither adds a valid approval for any change, so ground truth is unchanged.
func (w *World) execApproveByz(a *Actor, op *Op, from, to string) error {
	ap := op.Approve
	yFrom := "0000000000000000000000000000000000000000"
	if ap.StoreFrom != 0 {
		e, ok := w.ByOp[ap.StoreFrom]
		if !ok {
			return ErrSkipped
		}
		yFrom = e.Target
	}
	yC, ok := w.Commits[ap.StoreTo]
	if !ok {
		return ErrSkipped
	}
	yTo := yC.Tree
	yRef := ap.StoreRef
	if yRef == "" {
		yRef = ap.Ref
	}
	if yRef == ap.Ref && yFrom == from && yTo == to {
		return ErrSkipped // not a different change
	}
	var env *sslibdsse.Envelope
	var err error
	mk := func(ref, f, t string) (*sslibdsse.Envelope, error) {
		if ap.App != "" {
			stmt, err := attestations.NewGitHubPullRequestApprovalAttestation(ref, f, t, ap.Approvers, ap.Dismissed)
			if err != nil {
				return nil, err
			}
			return dsse.CreateEnvelope(stmt)
		}
		stmt, err := attestations.NewReferenceAuthorizationForCommit(ref, f, t)
		if err != nil {
			return nil, err
		}
		return dsse.CreateEnvelope(stmt)
	}
	signers := ap.Signers
	if ap.App != "" {
		signers = []int{ap.AppKey}
	}
	// X's statement, validly signed
	env, err = mk(ap.Ref, from, to)
	if err != nil {
		return err
	}
	for _, s := range signers {
		if env, err = dsse.SignEnvelope(context.Background(), env, GetKey(s).DSSE()); err != nil {
			return err
		}
	}
	if ap.Lift {
		// Y's statement carrying the signatures made over X's statement
		yEnv, err := mk(yRef, yFrom, yTo)
		if err != nil {
			return err
		}
		yEnv.Signatures = env.Signatures
		env = yEnv
	}
	blob, err := json.Marshal(env)
	if err != nil {
		return err
	}
	// rebuild the attestations tree with the extra blob under Y's path
	files := map[string]string{}
	if tip, ok := w.St.GetRef(attestations.Ref); ok {
		c, err := w.St.CommitInfo(tip)
		if err != nil {
			return err
		}
		if files, err = w.St.AllFiles(c.Tree); err != nil {
			return err
		}
	}
	path := "reference-authorizations/" + attestations.ReferenceAuthorizationPath(yRef, yFrom, yTo)
	if ap.App != "" {
		path = "code-review-approvals/" + attestations.GitHubPullRequestApprovalAttestationPath(yRef, yFrom, yTo) + "/" + base64.URLEncoding.EncodeToString([]byte(ap.App))
	}
	blobID, err := a.H.WriteBlob(blob)
	if err != nil {
		return err
	}
	files[path] = blobID.String()
	entries := []gitstore.TreeEntry{}
	for p, id := range files {
		entries = append(entries, gitstore.TreeEntry{Path: p, ID: hashOf(id), Kind: gitstore.KindBlob})
	}
	tree, err := a.H.WriteTree(entries)
	if err != nil {
		return err
	}
	cid, err := a.H.Commit(tree, attestations.Ref, "attestations", false)
	if err != nil {
		return err
	}
	w.pendingAtt = w.Att.Clone()
	return RecordEntry(a.H, attestations.Ref, cid.String(), -2)
}
