package world

import (
	"context"
	"encoding/base64"
	"errors"
	"fmt"
	"sort"
	"strings"

	"github.com/gittuf/gittuf/internal/attestations"
	"github.com/gittuf/gittuf/internal/policy"
	"github.com/gittuf/gittuf/pkg/githash"
	"github.com/gittuf/gittuf/pkg/gitstore"
	"github.com/gittuf/gittuf/pkg/rsl"
	"github.com/gittuf/gittuf/verifsim/gitx"
	"github.com/gittuf/gittuf/verifsim/sched"
	"github.com/gittuf/gittuf/verifsim/simstore"
)

// Op is one operation of a run. Operations are data: a replay file is a list
// of them. References to earlier operations use their stable ID, so removing
// operations during minimisation never re-targets the rest.
type Op struct {
	ID    int    `json:"id"`
	Kind  string `json:"kind"`
	Actor int    `json:"actor"`
	Ref   string `json:"ref,omitempty"`

	// push / fix / commit creation
	Base      string            `json:"base,omitempty"` // "" = current ref tip, "root" = no parent, "op:N" = commit made by op N, "entry:N" = target of entry recorded by op N
	Files     map[string]string `json:"files,omitempty"`
	TreeOf    int               `json:"treeOf,omitempty"`    // fix: reuse the tree of the commit recorded by op N (1-based id; 0 = unset)
	CommitKey int               `json:"commitKey,omitempty"` // key index signing the commit (-1 unsigned)
	EntryKey  int               `json:"entryKey,omitempty"`  // key index signing the RSL entry (-1 unsigned, -2 actor's own configured key)
	NoMove    bool              `json:"noMove,omitempty"`    // record without moving the branch ref
	Merge     string            `json:"merge,omitempty"`     // second parent: "op:N"

	// annotate
	Targets []int  `json:"targets,omitempty"` // op IDs whose entries are referenced; negative = bogus id kinds
	Skip    bool   `json:"skip,omitempty"`
	Msg     string `json:"msg,omitempty"`

	// propagation
	Upstream string `json:"upstream,omitempty"`

	// policy
	Policy *PolicySpec `json:"policy,omitempty"`

	// approvals
	Approve *ApproveSpec `json:"approve,omitempty"`

	// verify
	Mode      string `json:"mode,omitempty"` // full | latest | from | mergeable
	FromEntry int    `json:"fromEntry,omitempty"`
	Feature   string `json:"feature,omitempty"`

	// byz
	Byz string `json:"byz,omitempty"`

	// generic small integer argument (e.g. which growth point, which variant)
	N int `json:"n,omitempty"`
}

type ApproveSpec struct {
	Ref       string   `json:"ref"`
	FromOp    int      `json:"fromOp"`             // op ID whose recorded target is `from` (0 = zero hash)
	ToOp      int      `json:"toOp"`               // op ID of the commit whose tree is `to`
	Signers   []int    `json:"signers"`            // key indexes signing the authorization
	StoreRef  string   `json:"storeRef,omitempty"` // misfiled: store under another change's path
	StoreFrom int      `json:"storeFrom,omitempty"`
	StoreTo   int      `json:"storeTo,omitempty"`
	App       string   `json:"app,omitempty"`    // code-review approval by this app
	AppKey    int      `json:"appKey,omitempty"` // key signing the app attestation
	Approvers []string `json:"approvers,omitempty"`
	Dismissed []string `json:"dismissed,omitempty"`
	Remove    bool     `json:"remove,omitempty"`
	Tag       bool     `json:"tag,omitempty"`     // the change is the creation of a tag: `to` is the commit the tag points to
	Lift      bool     `json:"lift,omitempty"`    // adversary: signatures lifted from the envelope of another change (StoreFrom/StoreTo)
	Misfile   bool     `json:"misfile,omitempty"` // adversary: a validly signed statement for this change stored under the path of (StoreRef, StoreFrom, StoreTo)
}

// EntryTruth is what the simulator knows about one commit in the RSL because
// it made it: ground truth for the reference model.
type EntryTruth struct {
	OpID     int
	ID       string // RSL commit id
	Kind     string // reference | annotation | propagation
	Ref      string
	Target   string
	Signer   int // key index, -1 unsigned
	Actor    int
	Number   uint64
	Targets  []string // annotation: referenced entry ids
	Skip     bool
	Upstream string
	Policy   *PolicySpec // set on refs/gittuf/policy entries produced by apply
	Att      *AttState   // set on refs/gittuf/attestations entries: the approvals that state holds
	Numbered bool
	// tag entries: the commit the recorded tag object points to and who signed the tag object
	TagCommit string
	TagSigner int
}

// Review is a code-review approval as the simulator stored it.
type Review struct {
	SignerKey int
	Approvers []string
	Dismissed []string
}

// AttState is the ground truth of one attestations state: which keys validly
// signed the authorization stored for which exact change, and which reviews.
type AttState struct {
	Authorizations map[string]map[int]bool
	Reviews        map[string]map[string]Review
}

func NewAttState() *AttState {
	return &AttState{Authorizations: map[string]map[int]bool{}, Reviews: map[string]map[string]Review{}}
}

func (a *AttState) Clone() *AttState {
	n := NewAttState()
	if a == nil {
		return n
	}
	for k, v := range a.Authorizations {
		m := map[int]bool{}
		for kk := range v {
			m[kk] = true
		}
		n.Authorizations[k] = m
	}
	for k, v := range a.Reviews {
		m := map[string]Review{}
		for kk, r := range v {
			m[kk] = r
		}
		n.Reviews[k] = m
	}
	return n
}

// ChangeKey names one exact change: reference, prior state, resulting tree.
func ChangeKey(ref, from, toTree string) string { return ref + "|" + from + "|" + toTree }

// CommitTruth describes a user commit the harness created.
type CommitTruth struct {
	OpID    int
	ID      string
	Tree    string
	Parents []string
	Signer  int
	Files   map[string]string // full path -> content after this commit
	Changed []string
}

type Actor struct {
	Name string
	Key  int
	Proc *sched.Proc
	H    *sched.Handle
}

type World struct {
	St     *simstore.Store
	Env    *sched.Env
	Actors []*Actor

	// Ground truth
	Entries     []*EntryTruth         // RSL in log order as appended through this world
	ByOp        map[int]*EntryTruth   // last entry appended by op id
	AllByOp     map[int][]*EntryTruth // every entry appended by op id
	Commits     map[int]*CommitTruth  // user commits by op id
	CommitIdx   map[string]*CommitTruth
	Staged      *PolicySpec // last policy spec committed to staging
	Outcomes    map[int]sched.Outcome
	Verdicts    map[int]Verdict
	Att         *AttState // current attestation ground truth
	pendingAtt  *AttState
	pendingTag  *tagTruth
	stagedSpecs map[string]*PolicySpec
}

func New(nActors int) *World {
	w := &World{
		St: simstore.New(), Env: sched.NewEnv(),
		ByOp: map[int]*EntryTruth{}, AllByOp: map[int][]*EntryTruth{}, Commits: map[int]*CommitTruth{}, CommitIdx: map[string]*CommitTruth{},
		Outcomes: map[int]sched.Outcome{},
	}
	for i := 0; i < nActors; i++ {
		w.AddActor(i)
	}
	return w
}

// NewWithKeys creates a world whose actor i owns key keys[i].
func NewWithKeys(keys []int) *World {
	w := New(0)
	for _, k := range keys {
		w.AddActor(k)
	}
	return w
}

func (w *World) AddActor(key int) *Actor {
	i := len(w.Actors)
	name := fmt.Sprintf("actor%d", i)
	p := w.Env.NewProc(name)
	a := &Actor{Name: name, Key: key, Proc: p}
	a.H = &sched.Handle{St: w.St, P: p, Name: name, SignPEM: GetKey(key).PEM, LocalNS: name}
	w.Actors = append(w.Actors, a)
	return a
}

// Rebind points every actor's handle at another store (fork/twin worlds).
func (w *World) Rebind(st *simstore.Store) {
	w.St = st
	for _, a := range w.Actors {
		a.H.St = st
	}
}

func IsInjected(err error) bool { return errors.Is(err, sched.ErrInjected) }

// ---- independent raw reading of the RSL (no gittuf code) ----

// RawEntry is an RSL commit as read from the object graph by the independent
// walker and the small parser below (written from the documented entry format,
// not from rsl.ParseEntryText).
type RawEntry struct {
	ID       string
	Parents  []string
	Kind     string
	Ref      string
	Target   string
	Targets  []string
	Skip     bool
	Number   uint64
	HasNum   bool
	Upstream string
	UpEntry  string
	Msg      string
	Valid    bool
}

func ParseRaw(id string, c *simstore.CommitObj) *RawEntry {
	e := &RawEntry{ID: id, Parents: c.Parents}
	lines := strings.Split(strings.TrimSpace(c.Message), "\n")
	if len(lines) < 3 || strings.TrimSpace(lines[1]) != "" {
		return e
	}
	switch lines[0] {
	case "RSL Reference Entry":
		e.Kind = "reference"
	case "RSL Annotation Entry":
		e.Kind = "annotation"
	case "RSL Propagation Entry":
		e.Kind = "propagation"
	default:
		return e
	}
	haveSkip := false
	inMsg := false
	b64 := ""
	defer func() {
		if b64 != "" {
			if m, err := base64.StdEncoding.DecodeString(b64); err == nil {
				e.Msg = string(m)
			}
		}
	}()
	for _, l := range lines[2:] {
		l = strings.TrimSpace(l)
		if l == "-----BEGIN MESSAGE-----" {
			inMsg = true
			continue
		}
		if inMsg {
			if l == "-----END MESSAGE-----" {
				break
			}
			b64 += l
			continue
		}
		k, v, ok := strings.Cut(l, ":")
		if !ok {
			return e
		}
		k, v = strings.TrimSpace(k), strings.TrimSpace(v)
		switch k {
		case "ref":
			e.Ref = v
		case "targetID":
			e.Target = v
		case "entryID":
			e.Targets = append(e.Targets, v)
		case "skip":
			e.Skip = v == "true"
			haveSkip = true
		case "number":
			var n uint64
			if _, err := fmt.Sscanf(v, "%d", &n); err != nil {
				return e
			}
			e.Number, e.HasNum = n, true
		case "upstreamRepository":
			e.Upstream = v
		case "upstreamEntryID":
			e.UpEntry = v
		}
	}
	switch e.Kind {
	case "reference":
		e.Valid = e.Ref != "" && len(e.Target) == 40
	case "annotation":
		e.Valid = len(e.Targets) > 0 && haveSkip
	case "propagation":
		e.Valid = e.Ref != "" && len(e.Target) == 40 && len(e.UpEntry) == 40
	}
	return e
}

// WalkRSL reads the chain under the RSL ref newest to oldest through the raw
// object pool. It returns the entries oldest first and a structural error
// description ("" if the chain is a well-formed single-parent, consecutively
// numbered chain).
func WalkRSL(st *simstore.Store) ([]*RawEntry, string) {
	tip, ok := st.GetRef(rsl.Ref)
	if !ok {
		return nil, ""
	}
	var rev []*RawEntry
	cur := tip
	seen := map[string]bool{}
	problem := ""
	for cur != "" {
		if seen[cur] {
			return nil, "cycle in RSL"
		}
		seen[cur] = true
		c, err := st.CommitInfo(cur)
		if err != nil {
			return nil, fmt.Sprintf("RSL commit %s unreadable: %v", cur, err)
		}
		e := ParseRaw(cur, c)
		rev = append(rev, e)
		if !e.Valid && problem == "" {
			problem = fmt.Sprintf("entry %s is not a well-formed RSL entry", short(cur))
		}
		if c.Tree != simstore.EmptyTreeID && problem == "" {
			problem = fmt.Sprintf("entry %s does not carry the empty tree", short(cur))
		}
		switch len(c.Parents) {
		case 0:
			cur = ""
		case 1:
			cur = c.Parents[0]
		default:
			if problem == "" {
				problem = fmt.Sprintf("entry %s has %d parents", short(cur), len(c.Parents))
			}
			cur = c.Parents[0]
		}
	}
	out := make([]*RawEntry, len(rev))
	for i := range rev {
		out[len(rev)-1-i] = rev[i]
	}
	// numbering: number = parent+1; first numbered after unnumbered is 1
	for i, e := range out {
		var prev uint64
		if i > 0 {
			prev = out[i-1].Number
		}
		if problem != "" {
			break
		}
		if e.Number == 0 {
			if prev != 0 {
				problem = fmt.Sprintf("unnumbered entry %s follows numbered entry", short(e.ID))
			}
			continue
		}
		if e.Number != prev+1 {
			problem = fmt.Sprintf("entry %s has number %d after %d", short(e.ID), e.Number, prev)
		}
	}
	return out, problem
}

func short(id string) string {
	if len(id) > 10 {
		return id[:10]
	}
	return id
}

// ---- operation primitives over any gitstore.Storer ----

func hashOf(id string) githash.Hash { return simstore.H(id) }

// RecordEntry records a reference entry. key: -1 unsigned, -2 the store's
// configured signing key, >=0 that specific key.
func RecordEntry(st gitstore.Storer, ref, target string, key int) error {
	e := rsl.NewReferenceEntry(ref, hashOf(target))
	switch {
	case key == -1:
		return e.Commit(st, false)
	case key == -2:
		return e.Commit(st, true)
	default:
		return e.CommitUsingSpecificKey(st, GetKey(key).PEM)
	}
}

func RecordAnnotation(st gitstore.Storer, ids []string, skip bool, msg string, key int) error {
	hs := make([]githash.Hash, 0, len(ids))
	for _, id := range ids {
		hs = append(hs, hashOf(id))
	}
	a := rsl.NewAnnotationEntry(hs, skip, msg)
	switch {
	case key == -1:
		return a.Commit(st, false)
	case key == -2:
		return a.Commit(st, true)
	default:
		return a.CommitUsingSpecificKey(st, GetKey(key).PEM)
	}
}

func RecordPropagation(st gitstore.Storer, ref, target, upstream, upstreamEntry string, key int) error {
	e := rsl.NewPropagationEntry(ref, hashOf(target), upstream, hashOf(upstreamEntry))
	switch {
	case key == -1:
		return e.Commit(st, false)
	case key == -2:
		return e.Commit(st, true)
	default:
		return e.CommitUsingSpecificKey(st, GetKey(key).PEM)
	}
}

// CommitPolicy builds the spec's metadata and commits it to policy-staging.
func CommitPolicy(st gitstore.Storer, spec *PolicySpec, sign bool) error {
	md, err := spec.Build()
	if err != nil {
		return fmt.Errorf("harness: cannot build policy: %w", err)
	}
	state := &policy.State{Metadata: md}
	return state.Commit(st, "policy update", true, sign)
}

func ApplyPolicy(st gitstore.Storer, sign bool) error {
	return policy.Apply(context.Background(), st, sign)
}

// ---- ground truth bookkeeping ----

// SyncTruth reconciles w.Entries with the raw chain after an operation: every
// commit newly present on the chain is attributed to opID. It returns the new
// raw entries (oldest first).
func (w *World) SyncTruth(opID, actor int, signer int, pol *PolicySpec) []*RawEntry {
	raw, _ := WalkRSL(w.St)
	known := map[string]bool{}
	for _, e := range w.Entries {
		known[e.ID] = true
	}
	var fresh []*RawEntry
	for _, r := range raw {
		if known[r.ID] {
			continue
		}
		fresh = append(fresh, r)
		t := &EntryTruth{OpID: opID, ID: r.ID, Kind: r.Kind, Ref: r.Ref, Target: r.Target, Signer: signer, Actor: actor,
			Number: r.Number, Targets: r.Targets, Skip: r.Skip, Upstream: r.Upstream, Numbered: r.HasNum}
		if r.Ref == policy.PolicyRef && pol != nil {
			t.Policy = pol
		}
		if w.pendingTag != nil && r.Kind == "reference" && strings.HasPrefix(r.Ref, "refs/tags/") {
			t.TagCommit, t.TagSigner = w.pendingTag.commit, w.pendingTag.signer
		}
		if r.Ref == attestations.Ref && (r.Kind == "reference") {
			if w.pendingAtt != nil {
				w.Att = w.pendingAtt
				w.pendingAtt = nil
			}
			t.Att = w.Att.Clone()
		}
		w.Entries = append(w.Entries, t)
		w.ByOp[opID] = t
		w.AllByOp[opID] = append(w.AllByOp[opID], t)
	}
	return fresh
}

type tagTruth struct {
	commit string
	signer int
}

// ---- user commits ----

// MakeCommit creates a user commit (the work a developer pushes). parent may
// be "" for a root commit. files maps path to content; "" content deletes.
func (w *World) MakeCommit(opID int, parents []string, files map[string]string, key int, msg string) (*CommitTruth, error) {
	cur := map[string]string{}
	if len(parents) > 0 {
		if pt, ok := w.CommitIdx[parents[0]]; ok {
			for k, v := range pt.Files {
				cur[k] = v
			}
		}
	}
	changed := []string{}
	for p, c := range files {
		if c == "" {
			if _, had := cur[p]; had {
				delete(cur, p)
				changed = append(changed, p)
			}
			continue
		}
		if cur[p] != c {
			changed = append(changed, p)
		}
		cur[p] = c
	}
	sort.Strings(changed)
	entries := make([]gitstore.TreeEntry, 0, len(cur))
	for p, c := range cur {
		entries = append(entries, gitstore.TreeEntry{Path: p, ID: hashOf(w.St.Pool.PutBlob([]byte(c))), Kind: gitstore.KindBlob})
	}
	tree, err := w.St.WriteTreeEntries(entries)
	if err != nil {
		return nil, err
	}
	spec := &simstore.CommitSpec{Tree: tree, Parents: parents, Message: msg + "\n", Name: "dev", Email: "dev@example.com", When: w.St.Clock.Tick()}
	if key >= 0 {
		spec.SignerPEM = GetKey(key).PEM
	}
	id, err := w.St.Pool.PutCommit(spec)
	if err != nil {
		return nil, err
	}
	ct := &CommitTruth{OpID: opID, ID: id, Tree: tree, Parents: parents, Signer: key, Files: cur, Changed: changed}
	w.Commits[opID] = ct
	w.CommitIdx[id] = ct
	return ct, nil
}

// LoadAttestations is a thin wrapper used by approval operations.
func LoadAttestations(st gitstore.Storer) (*attestations.Attestations, error) {
	return attestations.LoadCurrentAttestations(st)
}

// RecordEntryNoNumber records a legacy, unnumbered reference entry.
func RecordEntryNoNumber(st gitstore.Storer, ref, target string) error {
	return rsl.NewReferenceEntry(ref, hashOf(target)).CommitWithoutNumber(st)
}

// VerifyMergeable runs the mergeability prediction through the real verifier.
func VerifyMergeable(st gitstore.Storer, target, feature string) (bool, error) {
	return policy.NewPolicyVerifier(st).VerifyMergeable(context.Background(), target, feature)
}

// VerifyMergeableForCommit is the form of the prediction that takes the feature
// commit instead of a recorded feature reference.
func VerifyMergeableForCommit(st gitstore.Storer, target, featureCommit string) (bool, error) {
	return policy.NewPolicyVerifier(st).VerifyMergeableForCommit(context.Background(), target, hashOf(featureCommit))
}

// WalkRSLGit is WalkRSL for a real git repository, read with one `git log`
// over raw commit headers (not through gitinterface or rsl).
func WalkRSLGit(r *gitx.Repo, ref string) ([]*RawEntry, string) {
	tip := r.GetRef(ref)
	if tip == "" {
		return nil, ""
	}
	out0, err := r.Git(nil, "log", "--first-parent", "--format=%H%x00%P%x00%B%x00%x01", tip)
	if err != nil {
		return nil, fmt.Sprintf("RSL unreadable: %v", err)
	}
	var rev []*RawEntry
	problem := ""
	for _, rec := range strings.Split(out0, "\x00\x01") {
		rec = strings.TrimPrefix(rec, "\n")
		if rec == "" {
			continue
		}
		f := strings.SplitN(rec, "\x00", 3)
		if len(f) != 3 {
			continue
		}
		parents := strings.Fields(f[1])
		e := ParseRaw(f[0], &simstore.CommitObj{Parents: parents, Message: f[2]})
		rev = append(rev, e)
		if !e.Valid && problem == "" {
			problem = fmt.Sprintf("entry %s is not a well-formed RSL entry", short(f[0]))
		}
		if len(parents) > 1 && problem == "" {
			problem = fmt.Sprintf("entry %s has %d parents", short(f[0]), len(parents))
		}
	}
	out := make([]*RawEntry, len(rev))
	for i := range rev {
		out[len(rev)-1-i] = rev[i]
	}
	for i, e := range out {
		var prev uint64
		if i > 0 {
			prev = out[i-1].Number
		}
		if problem != "" {
			break
		}
		if e.Number == 0 {
			if prev != 0 {
				problem = fmt.Sprintf("unnumbered entry %s follows numbered entry", short(e.ID))
			}
			continue
		}
		if e.Number != prev+1 {
			problem = fmt.Sprintf("entry %s has number %d after %d", short(e.ID), e.Number, prev)
		}
	}
	return out, problem
}
