// Package world builds simulated gittuf deployments: identities and keys,
// policies, the operation alphabet (data, not closures) and its executor on a
// SimStore through the real rsl / policy / attestations packages.
package world

import (
	"bytes"
	"context"
	"crypto"
	"crypto/ed25519"
	"crypto/sha256"
	"encoding/base64"
	"encoding/pem"
	"fmt"

	sslibdsse "github.com/gittuf/gittuf/internal/third_party/go-securesystemslib/dsse"
	"github.com/gittuf/gittuf/internal/tuf"
	tufv02 "github.com/gittuf/gittuf/internal/tuf/v02"
	"github.com/hiddeco/sshsig"
	"github.com/secure-systems-lab/go-securesystemslib/signerverifier"
	"golang.org/x/crypto/ssh"
)

// Key is one deterministic ed25519 key pair. ed25519 signatures are
// deterministic, so every signed object has a reproducible id.
type Key struct {
	Index  int
	PEM    []byte
	Pub    ssh.PublicKey
	Signer ssh.Signer
	SSLib  *signerverifier.SSLibKey
	ID     string
}

var keyCache = map[int]*Key{}

// GetKey returns key number i (0..), created from a fixed seed.
func GetKey(i int) *Key {
	if k, ok := keyCache[i]; ok {
		return k
	}
	seed := sha256.Sum256([]byte(fmt.Sprintf("gittuf-verifsim-key-%d", i)))
	priv := ed25519.NewKeyFromSeed(seed[:])
	block, err := ssh.MarshalPrivateKey(crypto.PrivateKey(priv), "")
	if err != nil {
		panic(err)
	}
	pemBytes := pem.EncodeToMemory(block)
	signer, err := ssh.NewSignerFromKey(priv)
	if err != nil {
		panic(err)
	}
	pub := signer.PublicKey()
	id := ssh.FingerprintSHA256(pub)
	k := &Key{
		Index: i, PEM: pemBytes, Pub: pub, Signer: signer, ID: id,
		SSLib: &signerverifier.SSLibKey{
			KeyID:   id,
			KeyType: "ssh",
			Scheme:  pub.Type(),
			KeyVal:  signerverifier.KeyVal{Public: base64.StdEncoding.EncodeToString(pub.Marshal())},
		},
	}
	keyCache[i] = k
	return k
}

// Principal returns the key as a tuf.Principal (key-as-principal form).
func (k *Key) Principal() tuf.Principal { return tufv02.NewKeyFromSSLibKey(k.SSLib) }

// DSSE returns an in-process envelope signer producing the same armored
// sshsig ssh-keygen would; it is verified by gittuf's real ssh.Verifier.
func (k *Key) DSSE() sslibdsse.SignerVerifier { return &dsseSigner{k} }

type dsseSigner struct{ k *Key }

func (d *dsseSigner) Sign(_ context.Context, data []byte) ([]byte, error) {
	sig, err := sshsig.Sign(bytes.NewReader(data), d.k.Signer, sshsig.HashSHA512, "git")
	if err != nil {
		return nil, err
	}
	return sshsig.Armor(sig), nil
}

func (d *dsseSigner) Verify(_ context.Context, data, sig []byte) error {
	s, err := sshsig.Unarmor(sig)
	if err != nil {
		return err
	}
	return sshsig.Verify(bytes.NewReader(data), s, d.k.Pub, sshsig.HashSHA512, "git")
}

func (d *dsseSigner) KeyID() (string, error) { return d.k.ID, nil }

func (d *dsseSigner) Public() crypto.PublicKey {
	return d.k.Pub.(ssh.CryptoPublicKey).CryptoPublicKey()
}

// Person builds a tufv02.Person with the given keys.
func Person(id string, keys []*Key, identities map[string]string) *tufv02.Person {
	p := &tufv02.Person{PersonID: id, PublicKeys: map[string]*tufv02.Key{}, AssociatedIdentities: identities}
	for _, k := range keys {
		p.PublicKeys[k.ID] = tufv02.NewKeyFromSSLibKey(k.SSLib)
	}
	return p
}
