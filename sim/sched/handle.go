package sched

import (
	"fmt"
	"sort"
	"strings"

	"github.com/gittuf/gittuf/pkg/githash"
	"github.com/gittuf/gittuf/pkg/gitstore"
	"github.com/gittuf/gittuf/verifsim/simstore"
)

// Handle is the gitstore.Storer one simulated process sees: the shared (or
// forked) SimStore behind the interception points of its Proc.
type Handle struct {
	St   *simstore.Store
	P    *Proc
	Name string // committer identity
	// SignPEM is the key `Commit(..., sign=true)` signs with (the process's
	// configured user.signingkey); nil means signing is not configured.
	SignPEM []byte
	// LocalNS namespaces refs/local/* (the persistent cache) per process so
	// that several simulated clones can share one store.
	LocalNS string
}

var _ gitstore.Storer = (*Handle)(nil)

func short(id string) string {
	if len(id) > 10 {
		return id[:10]
	}
	return id
}

func (h *Handle) mapRef(ref string) string {
	if h.LocalNS != "" && strings.HasPrefix(ref, "refs/local/") {
		return "refs/local/" + h.LocalNS + "/" + strings.TrimPrefix(ref, "refs/local/")
	}
	return ref
}

func (h *Handle) zero() githash.Hash { return githash.ZeroHash }

func (h *Handle) GetReference(refName string) (githash.Hash, error) {
	d, err := h.P.Before("GetReference", refName)
	if err != nil {
		return h.zero(), err
	}
	v, ok := h.St.GetRef(h.mapRef(refName))
	if err := h.P.After(d); err != nil {
		return h.zero(), err
	}
	if !ok {
		return h.zero(), fmt.Errorf("%w: %s", gitstore.ErrReferenceNotFound, refName)
	}
	return simstore.H(v), nil
}

func (h *Handle) SetReference(refName string, gitID githash.Hash) error {
	d, err := h.P.Before("SetReference", refName)
	if err != nil {
		return err
	}
	h.St.SetRef(h.mapRef(refName), gitID.String())
	return h.P.After(d)
}

func (h *Handle) DeleteReference(refName string) error {
	d, err := h.P.Before("DeleteReference", refName)
	if err != nil {
		return err
	}
	h.St.DelRef(h.mapRef(refName))
	return h.P.After(d)
}

func (h *Handle) ReadBlob(blobID githash.Hash) ([]byte, error) {
	d, err := h.P.Before("ReadBlob", short(blobID.String()))
	if err != nil {
		return nil, err
	}
	b, rerr := h.St.ReadBlob(blobID.String())
	if err := h.P.After(d); err != nil {
		return nil, err
	}
	return b, rerr
}

func (h *Handle) WriteBlob(contents []byte) (githash.Hash, error) {
	// content key: the id the blob will have
	id := simstore.NewPool().PutBlob(contents)
	d, err := h.P.Before("WriteBlob", short(id))
	if err != nil {
		return h.zero(), err
	}
	id = h.St.Pool.PutBlob(contents)
	if err := h.P.After(d); err != nil {
		return h.zero(), err
	}
	return simstore.H(id), nil
}

func (h *Handle) EmptyTree() (githash.Hash, error) {
	d, err := h.P.Before("EmptyTree", "")
	if err != nil {
		return h.zero(), err
	}
	if err := h.P.After(d); err != nil {
		return h.zero(), err
	}
	return simstore.H(simstore.EmptyTreeID), nil
}

func (h *Handle) WriteTree(entries []gitstore.TreeEntry) (githash.Hash, error) {
	paths := make([]string, 0, len(entries))
	for _, e := range entries {
		paths = append(paths, e.Path)
	}
	sort.Strings(paths)
	key := strings.Join(paths, ",")
	if len(key) > 60 {
		key = fmt.Sprintf("%s..%d", key[:50], len(paths))
	}
	d, err := h.P.Before("WriteTree", key)
	if err != nil {
		return h.zero(), err
	}
	id, werr := h.St.WriteTreeEntries(entries)
	if err := h.P.After(d); err != nil {
		return h.zero(), err
	}
	if werr != nil {
		return h.zero(), werr
	}
	return simstore.H(id), nil
}

func (h *Handle) GetAllFilesInTree(treeID githash.Hash) (map[string]githash.Hash, error) {
	d, err := h.P.Before("GetAllFilesInTree", short(treeID.String()))
	if err != nil {
		return nil, err
	}
	files, rerr := h.St.AllFiles(treeID.String())
	if err := h.P.After(d); err != nil {
		return nil, err
	}
	if rerr != nil {
		return nil, rerr
	}
	if len(files) == 0 {
		return nil, nil
	}
	out := make(map[string]githash.Hash, len(files))
	for p, id := range files {
		out[p] = simstore.H(id)
	}
	return out, nil
}

func (h *Handle) GetEntriesInTree(treeID githash.Hash) ([]gitstore.TreeEntry, error) {
	d, err := h.P.Before("GetEntriesInTree", short(treeID.String()))
	if err != nil {
		return nil, err
	}
	ents, rerr := h.St.TreeEntries(treeID.String())
	if err := h.P.After(d); err != nil {
		return nil, err
	}
	if rerr != nil {
		return nil, rerr
	}
	if len(ents) == 0 {
		return nil, nil
	}
	out := make([]gitstore.TreeEntry, 0, len(ents))
	for _, e := range ents {
		k := gitstore.KindBlob
		if e.Dir {
			k = gitstore.KindSubtree
		}
		out = append(out, gitstore.TreeEntry{Path: e.Name, ID: simstore.H(e.ID), Kind: k})
	}
	return out, nil
}

func (h *Handle) GetPathIDInTree(treeID githash.Hash, treePath string) (githash.Hash, error) {
	d, err := h.P.Before("GetPathIDInTree", short(treeID.String())+":"+treePath)
	if err != nil {
		return nil, err
	}
	id, rerr := h.St.PathID(treeID.String(), treePath)
	if err := h.P.After(d); err != nil {
		return nil, err
	}
	if rerr != nil {
		return nil, rerr
	}
	return simstore.H(id), nil
}

func (h *Handle) GetCommitTreeID(commitID githash.Hash) (githash.Hash, error) {
	d, err := h.P.Before("GetCommitTreeID", short(commitID.String()))
	if err != nil {
		return h.zero(), err
	}
	c, rerr := h.St.CommitInfo(commitID.String())
	if err := h.P.After(d); err != nil {
		return h.zero(), err
	}
	if rerr != nil {
		return h.zero(), rerr
	}
	return simstore.H(c.Tree), nil
}

func (h *Handle) GetCommitMessage(commitID githash.Hash) (string, error) {
	d, err := h.P.Before("GetCommitMessage", short(commitID.String()))
	if err != nil {
		return "", err
	}
	c, rerr := h.St.CommitInfo(commitID.String())
	if err := h.P.After(d); err != nil {
		return "", err
	}
	if rerr != nil {
		return "", rerr
	}
	// `git show -s --format=%B` + TrimSpace in the real implementation
	return strings.TrimSpace(c.Message), nil
}

func (h *Handle) GetCommitParentIDs(commitID githash.Hash) ([]githash.Hash, error) {
	d, err := h.P.Before("GetCommitParentIDs", short(commitID.String()))
	if err != nil {
		return nil, err
	}
	c, rerr := h.St.CommitInfo(commitID.String())
	if err := h.P.After(d); err != nil {
		return nil, err
	}
	if rerr != nil {
		return nil, rerr
	}
	if len(c.Parents) == 0 {
		return nil, nil
	}
	out := make([]githash.Hash, 0, len(c.Parents))
	for _, p := range c.Parents {
		out = append(out, simstore.H(p))
	}
	return out, nil
}

func (h *Handle) GetCommitsBetweenRange(commitNewID, commitOldID githash.Hash) ([]githash.Hash, error) {
	old := ""
	if !commitOldID.IsZero() {
		old = commitOldID.String()
	}
	d, err := h.P.Before("GetCommitsBetweenRange", short(commitNewID.String())+".."+short(old))
	if err != nil {
		return nil, err
	}
	ids, rerr := h.St.CommitsBetween(commitNewID.String(), old)
	if err := h.P.After(d); err != nil {
		return nil, err
	}
	if rerr != nil {
		return nil, rerr
	}
	out := make([]githash.Hash, 0, len(ids))
	for _, id := range ids {
		out = append(out, simstore.H(id))
	}
	return out, nil
}

func (h *Handle) GetFilePathsChangedByCommit(commitID githash.Hash) ([]string, error) {
	d, err := h.P.Before("GetFilePathsChangedByCommit", short(commitID.String()))
	if err != nil {
		return nil, err
	}
	paths, rerr := h.St.ChangedPaths(commitID.String())
	if err := h.P.After(d); err != nil {
		return nil, err
	}
	return paths, rerr
}

func (h *Handle) KnowsCommit(commitID, ancestorID githash.Hash) (bool, error) {
	d, err := h.P.Before("KnowsCommit", short(commitID.String())+">"+short(ancestorID.String()))
	if err != nil {
		return false, err
	}
	ok, rerr := h.St.IsAncestor(ancestorID.String(), commitID.String())
	if err := h.P.After(d); err != nil {
		return false, err
	}
	return ok, rerr
}

func (h *Handle) GetMergeTree(commitAID, commitBID githash.Hash) (githash.Hash, error) {
	a := ""
	if !commitAID.IsZero() {
		a = commitAID.String()
	}
	d, err := h.P.Before("GetMergeTree", short(a)+"+"+short(commitBID.String()))
	if err != nil {
		return h.zero(), err
	}
	id, rerr := h.St.MergeTree(a, commitBID.String())
	if err := h.P.After(d); err != nil {
		return h.zero(), err
	}
	if rerr != nil {
		return h.zero(), rerr
	}
	return simstore.H(id), nil
}

func (h *Handle) GetTagTarget(tagID githash.Hash) (githash.Hash, error) {
	d, err := h.P.Before("GetTagTarget", short(tagID.String()))
	if err != nil {
		return h.zero(), err
	}
	o, ok := h.St.Pool.Get(tagID.String())
	if err := h.P.After(d); err != nil {
		return h.zero(), err
	}
	if !ok {
		return h.zero(), fmt.Errorf("%w: %s", simstore.ErrObjectNotFound, tagID.String())
	}
	if o.Kind != simstore.KTag {
		return h.zero(), fmt.Errorf("%w: %s", simstore.ErrNotTag, tagID.String())
	}
	return simstore.H(o.Tag.Target), nil
}

func (h *Handle) GetObjectSignature(objectID githash.Hash) ([]byte, []byte, error) {
	d, err := h.P.Before("GetObjectSignature", short(objectID.String()))
	if err != nil {
		return nil, nil, err
	}
	o, ok := h.St.Pool.Get(objectID.String())
	if err := h.P.After(d); err != nil {
		return nil, nil, err
	}
	if !ok {
		return nil, nil, fmt.Errorf("%w: %s", simstore.ErrObjectNotFound, objectID.String())
	}
	switch o.Kind {
	case simstore.KCommit:
		return o.Commit.Payload, []byte(o.Commit.Signature), nil
	case simstore.KTag:
		return o.Tag.Payload, []byte(o.Tag.Signature), nil
	}
	return nil, nil, fmt.Errorf("invalid object type, expected commit or tag for signature verification")
}

// commit mirrors pkg/gitinterface/commit.go: read the tip, create the commit
// object parented on it, compare-and-set the reference — three separate
// storage steps with an interception point before each.
func (h *Handle) commit(treeID githash.Hash, targetRef, message string, signPEM []byte, addNewline bool) (githash.Hash, error) {
	d1, err := h.P.Before("Commit.read", targetRef)
	if err != nil {
		return h.zero(), err
	}
	tip, _ := h.St.GetRef(h.mapRef(targetRef))
	if err := h.P.After(d1); err != nil {
		return h.zero(), err
	}

	d2, err := h.P.Before("Commit.object", targetRef)
	if err != nil {
		return h.zero(), err
	}
	msg := message
	if addNewline && !strings.HasSuffix(msg, "\n") {
		msg += "\n" // git commit-tree -m completes the line
	}
	spec := &simstore.CommitSpec{Tree: treeID.String(), Message: msg, Name: h.Name, Email: h.Name + "@example.com", When: h.St.Clock.Now(), SignerPEM: signPEM}
	if tip != "" {
		spec.Parents = []string{tip}
	}
	id, cerr := h.St.Pool.PutCommit(spec)
	if err := h.P.After(d2); err != nil {
		return h.zero(), err
	}
	if cerr != nil {
		return h.zero(), cerr
	}

	d3, err := h.P.Before("Commit.cas", targetRef)
	if err != nil {
		return h.zero(), err
	}
	caserr := h.St.CASRef(h.mapRef(targetRef), id, tip)
	if err := h.P.After(d3); err != nil {
		return h.zero(), err
	}
	if caserr != nil {
		return simstore.H(id), fmt.Errorf("unable to set Git reference '%s' to '%s': %w", targetRef, id, caserr)
	}
	return simstore.H(id), nil
}

func (h *Handle) Commit(treeID githash.Hash, targetRef, message string, sign bool) (githash.Hash, error) {
	var pem []byte
	if sign {
		if h.SignPEM == nil {
			return h.zero(), fmt.Errorf("signing key not specified in git config")
		}
		pem = h.SignPEM
	}
	return h.commit(treeID, targetRef, message, pem, true)
}

func (h *Handle) CommitUsingSpecificKey(treeID githash.Hash, targetRef, message string, signingKeyPEMBytes []byte) (githash.Hash, error) {
	return h.commit(treeID, targetRef, message, signingKeyPEMBytes, false)
}

func (h *Handle) ZeroHash() githash.Hash { return githash.ZeroHash }

func (h *Handle) LookupConfig(key gitstore.ConfigKey) (string, bool, error) {
	d, err := h.P.Before("LookupConfig", string(key))
	if err != nil {
		return "", false, err
	}
	if err := h.P.After(d); err != nil {
		return "", false, err
	}
	switch key {
	case gitstore.ConfigUserName:
		return h.Name, true, nil
	case gitstore.ConfigUserEmail:
		return h.Name + "@example.com", true, nil
	}
	return "", false, nil
}

func (h *Handle) ResetDueToError(cause error, refName string, commitID githash.Hash) error {
	d, err := h.P.Before("ResetDueToError", refName)
	if err != nil {
		return fmt.Errorf("unable to reset %s to %s, caused by following error: %w", refName, commitID.String(), cause)
	}
	h.St.SetRef(h.mapRef(refName), commitID.String())
	if err := h.P.After(d); err != nil {
		return fmt.Errorf("unable to reset %s to %s, caused by following error: %w", refName, commitID.String(), cause)
	}
	return cause
}
