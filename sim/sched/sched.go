// Package sched is the interception layer and the scheduler. Every storage
// call a simulated gittuf process makes crosses Handle (a gitstore.Storer);
// there the simulator may inject an error, kill the process before or after
// the call, report a failure although the effect happened, or — in concurrent
// mode — park the calling goroutine and let another process run. Exactly one
// goroutine runs at a time and the choice is the scheduler's, drawn from the
// run's PRNG or read from a replay file.
package sched

import (
	"crypto/sha256"
	"encoding/hex"
	"errors"
	"fmt"
	"sort"
	"strings"

	"github.com/gittuf/gittuf/pkg/rsl"
)

// ErrInjected is the sentinel every injected storage error wraps.
var ErrInjected = errors.New("injected storage fault")

type crashPanic struct{ proc string }

type FaultType string

const (
	FIOError     FaultType = "io-error"
	FCrashBefore FaultType = "crash-before"
	FCrashAfter  FaultType = "crash-after"
	FLostAck     FaultType = "lost-ack"
)

// Desc identifies one storage call by content, not by global index: the n-th
// call of this kind with this key argument inside operation Op. Go's map
// iteration order may permute commuting calls between runs; a content key
// still names the same call.
type Desc struct {
	Op   int    `json:"op"`
	Kind string `json:"kind"`
	Key  string `json:"key"`
	Nth  int    `json:"nth"`
}

func (d Desc) String() string { return fmt.Sprintf("op%d:%s(%s)#%d", d.Op, d.Kind, d.Key, d.Nth) }

type Fault struct {
	At   Desc      `json:"at"`
	Type FaultType `json:"type"`
}

// Event is one line of the event log.
type Event struct {
	Seq   int
	Proc  string
	Desc  Desc
	Fault FaultType
	Write bool
}

// Env is the simulation context of one run.
type Env struct {
	Faults []Fault
	Fired  map[FaultType]int
	Events []Event
	seq    int

	// concurrent mode
	sch *Scheduler

	// OnEvent, if set, observes every storage call before it executes.
	OnEvent func(ev *Event)
	// RecordEvents controls whether Events is kept (off for volume runs).
	RecordEvents bool
}

func NewEnv() *Env {
	return &Env{Fired: map[FaultType]int{}, RecordEvents: true}
}

// Seq is the simulator's global event sequence number.
func (e *Env) Seq() int { return e.seq }

func (e *Env) NextSeq() int {
	e.seq++
	return e.seq
}

// Proc is one simulated gittuf process (an actor's client invocation).
type Proc struct {
	Name   string
	Env    *Env
	Op     int
	Dead   bool
	counts map[string]int
	kcount map[string]int
	Cache  *rsl.VerifCache
	task   *Task
}

func (e *Env) NewProc(name string) *Proc {
	return &Proc{Name: name, Env: e, counts: map[string]int{}, Cache: rsl.VerifNewCache()}
}

// BeginOp starts a new operation: descriptor counters restart.
func (p *Proc) BeginOp(op int) {
	p.Op = op
	p.counts = map[string]int{}
	p.kcount = map[string]int{}
}

// Restart models a process restart: in-memory caches are lost.
func (p *Proc) Restart() {
	p.Cache = rsl.VerifNewCache()
	p.Dead = false
}

// faultFor finds the fault planned for this call. A fault whose key is "*"
// names "the n-th call of this kind in this operation", whatever its argument.
func (e *Env) faultFor(d Desc, kindNth int) (FaultType, bool) {
	for _, f := range e.Faults {
		if f.At == d {
			return f.Type, true
		}
		if f.At.Key == "*" && f.At.Op == d.Op && f.At.Kind == d.Kind && f.At.Nth == kindNth {
			return f.Type, true
		}
	}
	return "", false
}

// isRefKind reports whether a call touches shared mutable state (references).
// Object reads/writes are content-addressed and commute with everything, so
// only reference operations are scheduling points.
func isRefKind(kind string) bool {
	switch kind {
	case "GetReference", "SetReference", "DeleteReference", "Commit.read", "Commit.cas", "ResetDueToError", "Exec.ref":
		return true
	}
	return false
}

func isWriteKind(kind string) bool {
	switch kind {
	case "SetReference", "DeleteReference", "Commit.cas", "Commit.object", "ResetDueToError", "WriteBlob", "WriteTree":
		return true
	}
	return false
}

// Before is called by Handle ahead of every storage call. It returns an error
// to inject, or panics with the crash sentinel.
func (p *Proc) Before(kind, key string) (Desc, error) {
	if p.Dead {
		panic(crashPanic{p.Name})
	}
	ck := kind + "\x00" + key
	p.counts[ck]++
	if p.kcount == nil {
		p.kcount = map[string]int{}
	}
	p.kcount[kind]++
	d := Desc{Op: p.Op, Kind: kind, Key: key, Nth: p.counts[ck]}
	e := p.Env
	if e.sch != nil && p.task != nil && isRefKind(kind) {
		e.sch.park(p.task, d)
		if p.Dead {
			panic(crashPanic{p.Name})
		}
	}
	ev := Event{Seq: e.NextSeq(), Proc: p.Name, Desc: d, Write: isWriteKind(kind)}
	ft, has := e.faultFor(d, p.kcount[kind])
	if has {
		ev.Fault = ft
	}
	if e.OnEvent != nil {
		e.OnEvent(&ev)
	}
	if e.RecordEvents {
		e.Events = append(e.Events, ev)
	}
	if has {
		switch ft {
		case FIOError:
			e.Fired[ft]++
			return d, fmt.Errorf("%w: %s at %s", ErrInjected, ft, d)
		case FCrashBefore:
			e.Fired[ft]++
			p.Dead = true
			panic(crashPanic{p.Name})
		}
	}
	return d, nil
}

// After is called once the call's effect has happened.
func (p *Proc) After(d Desc) error {
	ft, has := p.Env.faultFor(d, p.kcount[d.Kind])
	if !has {
		return nil
	}
	switch ft {
	case FCrashAfter:
		p.Env.Fired[ft]++
		p.Dead = true
		panic(crashPanic{p.Name})
	case FLostAck:
		p.Env.Fired[ft]++
		return fmt.Errorf("%w: %s at %s", ErrInjected, ft, d)
	}
	return nil
}

// Outcome of running one operation of one process.
type Outcome struct {
	Err     error
	Crashed bool
	Panic   any // non-crash panic from the code under test
}

// RunOp executes f as operation op of process p, installing p's RSL cache for
// its duration and converting the crash sentinel into Outcome.Crashed.
func (p *Proc) RunOp(op int, f func() error) (out Outcome) {
	p.BeginOp(op)
	old := rsl.VerifSwapCache(p.Cache)
	defer func() {
		rsl.VerifSwapCache(old)
		if r := recover(); r != nil {
			if _, ok := r.(crashPanic); ok {
				out.Crashed = true
				return
			}
			out.Panic = r
		}
	}()
	out.Err = f()
	return out
}

// CanonicalDigest hashes the event log after sorting every maximal run of
// events that belong to one (proc, op) and are not reference operations: those
// are the calls Go's map iteration order may permute.
func (e *Env) CanonicalDigest() string {
	line := func(ev Event) string { return fmt.Sprintf("%s %s %s", ev.Proc, ev.Desc, ev.Fault) }
	lines := make([]string, 0, len(e.Events))
	i := 0
	for i < len(e.Events) {
		if isRefKind(e.Events[i].Desc.Kind) {
			lines = append(lines, line(e.Events[i]))
			i++
			continue
		}
		j := i
		for j < len(e.Events) && !isRefKind(e.Events[j].Desc.Kind) && e.Events[j].Proc == e.Events[i].Proc && e.Events[j].Desc.Op == e.Events[i].Desc.Op {
			j++
		}
		run := make([]string, 0, j-i)
		for _, ev := range e.Events[i:j] {
			run = append(run, line(ev))
		}
		sort.Strings(run)
		lines = append(lines, run...)
		i = j
	}
	h := sha256.Sum256([]byte(strings.Join(lines, "\n")))
	return hex.EncodeToString(h[:])
}

// ---------------------------------------------------------------------------
// Scheduler (concurrent mode): real goroutines, exactly one runnable.

type Task struct {
	ID     int
	Proc   *Proc
	resume chan struct{}
	parked bool
	done   bool
	at     Desc
	Out    Outcome
	Steps  int
}

type Scheduler struct {
	env    *Env
	tasks  []*Task
	notify chan *Task
	// Choose picks the index (into runnable) of the task to run next.
	Choose func(runnable []*Task, step int) int
	// Picks records the task id chosen at every step: the schedule.
	Picks []int
	// KillAt: when a task parks at this descriptor it is killed instead of resumed (crash).
	MaxSteps int
}

var ErrStepCap = errors.New("scheduler: step cap reached")

func (s *Scheduler) park(t *Task, d Desc) {
	t.at = d
	t.parked = true
	s.notify <- t
	<-t.resume
	t.parked = false
}

// RunConcurrent runs the operations concurrently under the scheduler. ops[i]
// is executed as operation opIdx[i] of procs[i]. Returns the tasks with their
// outcomes, and an error only for harness trouble (step cap).
func (e *Env) RunConcurrent(procs []*Proc, opIdx []int, ops []func() error, choose func(runnable []*Task, step int) int, maxSteps int) ([]*Task, []int, error) {
	s := &Scheduler{env: e, notify: make(chan *Task), Choose: choose, MaxSteps: maxSteps}
	e.sch = s
	defer func() { e.sch = nil }()
	base := rsl.VerifSwapCache(rsl.VerifNewCache())
	defer rsl.VerifSwapCache(base)
	for i := range procs {
		t := &Task{ID: i, Proc: procs[i], resume: make(chan struct{})}
		procs[i].task = t
		s.tasks = append(s.tasks, t)
	}
	defer func() {
		for _, p := range procs {
			p.task = nil
		}
	}()
	for i, t := range s.tasks {
		i, t := i, t
		go func() {
			// park before the first instruction so that start order is the
			// scheduler's choice too
			t.parked = true
			s.notify <- t
			<-t.resume
			t.parked = false
			func() {
				defer func() {
					if r := recover(); r != nil {
						if _, ok := r.(crashPanic); ok {
							t.Out.Crashed = true
							return
						}
						t.Out.Panic = r
					}
				}()
				t.Proc.BeginOp(opIdx[i])
				t.Out.Err = ops[i]()
			}()
			t.done = true
			s.notify <- t
		}()
	}
	// wait for all to reach their start park
	for range s.tasks {
		<-s.notify
	}
	step := 0
	for {
		runnable := []*Task{}
		for _, t := range s.tasks {
			if !t.done {
				runnable = append(runnable, t)
			}
		}
		if len(runnable) == 0 {
			break
		}
		if maxSteps > 0 && step >= maxSteps {
			// unblock everything by killing it
			for _, t := range runnable {
				t.Proc.Dead = true
				rsl.VerifSwapCache(t.Proc.Cache)
				t.resume <- struct{}{}
				<-s.notify
			}
			return s.tasks, s.Picks, ErrStepCap
		}
		k := 0
		if len(runnable) > 1 {
			k = choose(runnable, step)
			if k < 0 || k >= len(runnable) {
				k = 0
			}
		}
		t := runnable[k]
		s.Picks = append(s.Picks, t.ID)
		t.Steps++
		step++
		rsl.VerifSwapCache(t.Proc.Cache)
		t.resume <- struct{}{}
		<-s.notify // it parked again or finished
	}
	return s.tasks, s.Picks, nil
}

// At returns the descriptor the task is parked at.
func (t *Task) At() Desc { return t.at }
